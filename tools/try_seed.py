#!/usr/bin/env python3
"""Apply a seeded breaking change to /repo, run checks against it, undo it straight afterwards.
usage: tools/try_seed.py <patch.diff> <check id> [<check id> ...] [--tier quick|thorough]
Prints per check: exit status and the VIOLATION / KNOWN-FINDING lines. Never leaves /repo modified."""
import subprocess, sys, os
args = sys.argv[1:]
tier = "quick"
if "--tier" in args:
    i = args.index("--tier"); tier = args[i + 1]; del args[i:i + 2]
patch, checks = os.path.abspath(args[0]), args[1:]
assert subprocess.run(["git", "-C", "/repo", "status", "--porcelain"], capture_output=True, text=True).stdout.strip() == "", "/repo is not clean"
subprocess.check_call(["git", "-C", "/repo", "apply", patch])
try:
    for c in checks:
        p = subprocess.run(["./verif.py", "check", c, "--tier", tier], cwd="/verif", capture_output=True, text=True)
        lines = [l for l in p.stdout.splitlines() if l.startswith(("VIOLATION", "  sig:", "MACHINERY")) or " quick:" in l or " thorough:" in l]
        print("== %s rc=%d" % (c, p.returncode))
        for l in lines[:14]:
            print("   " + l[:220])
finally:
    subprocess.check_call(["git", "-C", "/repo", "checkout", "--", "."])
    subprocess.call(["git", "-C", "/repo", "clean", "-fdq", "--", "src", "std"])
    # restore evidence written by the run against the seeded tree
    subprocess.call(["git", "-C", "/verif", "checkout", "--", "evidence"])
    subprocess.call("rm -rf /verif/replays/*", shell=True)
