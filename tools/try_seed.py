#!/usr/bin/env python3
"""Apply a seeded breaking change to /repo, run checks against it, undo it straight afterwards.
usage: tools/try_seed.py <patch.diff> <check id> [<check id> ...] [--tier quick|thorough]
Prints per check: exit status and the VIOLATION / KNOWN-FINDING lines. Never leaves /repo modified."""
import subprocess, sys, os
args = sys.argv[1:]
tier = "quick"
if "--tier" in args:
    i = args.index("--tier"); tier = args[i + 1]; del args[i:i + 2]
patch, checks = os.path.abspath(args[0]), args[1:]
# scratch copies (a worktree of /repo and a copy of /verif with its own build output) can be named through the
# environment, so that a long regression pass does not occupy /repo: SEED_REPO, SEED_VERIF
REPO = os.environ.get("SEED_REPO", "/repo")
VERIF = os.environ.get("SEED_VERIF", "/verif")
ENV = dict(os.environ, UCG_REPO=REPO) if REPO != "/repo" else dict(os.environ)
assert subprocess.run(["git", "-C", REPO, "status", "--porcelain"], capture_output=True, text=True).stdout.strip() == "", "the repository copy is not clean"
subprocess.check_call(["git", "-C", REPO, "apply", patch])
try:
    for c in checks:
        p = subprocess.run(["./verif.py", "check", c, "--tier", tier], cwd=VERIF, env=ENV, capture_output=True, text=True)
        lines = [l for l in p.stdout.splitlines() if l.startswith(("VIOLATION", "  sig:", "MACHINERY")) or " quick:" in l or " thorough:" in l]
        print("== %s rc=%d" % (c, p.returncode))
        for l in lines[:14]:
            print("   " + l[:220])
finally:
    subprocess.check_call(["git", "-C", REPO, "checkout", "--", "."])
    subprocess.call(["git", "-C", REPO, "clean", "-fdq", "--", "src", "std"])
    # restore evidence written by the run against the seeded tree
    subprocess.call(["git", "-C", VERIF, "checkout", "--", "evidence"])
    subprocess.call("rm -rf %s/replays/*" % VERIF, shell=True)
