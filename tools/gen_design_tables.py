#!/usr/bin/env python3
"""Regenerate the generated regions of DESIGN.md (between <!-- BEGIN x --> / <!-- END x --> markers):
findings (from known_findings.json + git log of /repo), mutants (mutants/RESULTS.log), seeded (seeded/*/meta.json)."""
import json, glob, os, re, subprocess
V = "/verif"
s = open(V + "/DESIGN.md").read()

def region(name, text):
    global s
    b, e = "<!-- BEGIN %s -->" % name, "<!-- END %s -->" % name
    assert b in s and e in s, name
    i, j = s.index(b) + len(b), s.index(e)
    s = s[:i] + "\n" + text.rstrip() + "\n" + s[j:]

# findings
d = json.load(open(V + "/known_findings.json"))
rows = []
for f in d["findings"]:
    what = f["what"]
    if f["status"] == "fixed":
        what = what.split(" ", 3)[3] if what.startswith("fixed:") else what
        disp = "fixed `%s`" % f["commit"]
    else:
        disp = "**known**"
    rows.append("| %s | %s | %s | `%s` |" % (f["property"], disp, what.replace("|", "\\|").replace("\n", " ")[:330], f.get("witness", "").replace("|", "\\|").replace("\n", " ")[:90]))
rows.sort()
log = subprocess.check_output(["git", "-C", "/repo", "log", "--format=%h %s", "43edbb9..HEAD"]).decode().splitlines()
region("findings", "(%d `fix:` commits, %d entries of which %d known; some commits repair a defect that two properties observe)\n\n| Property | Disposition | What failed | Witness |\n|---|---|---|---|\n%s\n\nFix commits in /repo, newest first:\n\n%s" % (
    len(log), len(rows), sum(1 for f in d["findings"] if f["status"] == "known"), "\n".join(rows), "\n".join("    " + l for l in log)))

# mutants
res = {}
cur = None
for line in open(V + "/mutants/RESULTS.log"):
    m = re.match(r"##### mutants/(.*)\.patch", line)
    if m:
        cur = m.group(1); res[cur] = {"rc": None, "sigs": []}
    m = re.match(r"== (C\d+) rc=(\d+)", line)
    if m and cur:
        res[cur]["rc"] = int(m.group(2)); res[cur]["check"] = m.group(1)
    m = re.match(r"\s+sig: (.*)", line)
    if m and cur and len(res[cur]["sigs"]) < 1:
        res[cur]["sigs"].append(m.group(1).strip()[:110])
rows = []
for k in sorted(res):
    r = res[k]
    rows.append("| `%s` | %s | %s | %s |" % (k, r.get("check", "?"), "caught (exit 1)" if r["rc"] == 1 else ("NOT caught" if r["rc"] == 0 else "machinery exit %s" % r["rc"]), ("`%s`" % r["sigs"][0].replace("|", "\\|")) if r["sigs"] else ""))
region("mutants", "| Patch (mutants/) | Check | Result | First signature |\n|---|---|---|---|\n" + "\n".join(rows))

# seeded
rows = []
for mpath in sorted(glob.glob(V + "/seeded/*/meta.json")):
    m = json.load(open(mpath))
    name = os.path.basename(os.path.dirname(mpath))
    det = "; ".join("%s: %s" % (k, v) for k, v in m.get("detected_by", {}).items())
    rows.append("| `%s` | %s | %s | %s | %s |" % (name, m["breaks_property"], m.get("summary", "").replace("|", "\\|"), m.get("needs_to_manifest", "").replace("|", "\\|"), det.replace("|", "\\|")))
region("seeded", "| Seeded change (seeded/) | Property | Change | Needs, to manifest | Which check catches it |\n|---|---|---|---|---|\n" + "\n".join(rows))
open(V + "/DESIGN.md", "w").write(s)
print("regenerated")
