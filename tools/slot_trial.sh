#!/bin/bash
# Confirm one delivered change and trial it against checks, all in scratch copies belonging to one numbered slot, so that
# several can run side by side and /repo stays free.
# usage: tools/slot_trial.sh <slot> <dir with patch.diff and demo.sh> <check id> [<check id> ...]
# Slot k owns /tmp/trial/k/{wt (worktree of /repo HEAD for the repository's own tests), repo (worktree the checks build
# from), verif (copy of /verif with its own build output), target, home}. Prints one CONFIRM line and the try_seed output.
set -u
K=$1; D=$(realpath "$2"); shift 2
S=/tmp/trial/$K
mkdir -p $S/home
export CARGO_NET_OFFLINE=true RUST_BACKTRACE=0
export CARGO_HOME=${CARGO_HOME:-$HOME/.cargo} RUSTUP_HOME=${RUSTUP_HOME:-$HOME/.rustup}
HEAD=$(git -C /repo rev-parse HEAD)
for w in wt repo; do
  if [ ! -d $S/$w ]; then git -C /repo worktree add -q --detach $S/$w HEAD; fi
  git -C $S/$w checkout -q --detach $HEAD 2>/dev/null; git -C $S/$w checkout -q -- . ; git -C $S/$w clean -fdq -e target
done
# the copy of /verif follows /verif's working tree (checks under development are trialled as they are)
mkdir -p $S/verif
rsync -a --delete --exclude .git --exclude .build --exclude replays --exclude seeded --exclude baseline_reports /verif/ $S/verif/
if [ ! -d $S/verif/.build ]; then cp -r /verif/.build $S/verif/.build 2>/dev/null; fi
(cd $S/verif && git init -q 2>/dev/null; git add -A >/dev/null 2>&1; git -c user.email=x -c user.name=x commit -qm snap >/dev/null 2>&1)

(
export CARGO_TARGET_DIR=$S/target HOME=$S/home
WT=$S/wt
if [ ! -d $CARGO_TARGET_DIR ] && [ -d /tmp/wt6/base/target ]; then cp -r /tmp/wt6/base/target $CARGO_TARGET_DIR; fi
DEMO=$(ls $D/demo.sh $D/demo.py 2>/dev/null | head -1)
run_demo() { if [[ $DEMO == *.py ]]; then timeout 600 python3 $DEMO "$1" >$S/demo.$2.log 2>&1; else timeout 600 bash $DEMO "$1" >$S/demo.$2.log 2>&1; fi; echo $?; }
(cd $WT && cargo build --offline -q 2>/dev/null); cp $CARGO_TARGET_DIR/debug/ucg $S/ucg-base
BASE=$(run_demo $S/ucg-base base)
if ! git -C $WT apply $D/patch.diff; then echo "CONFIRM {\"error\":\"patch does not apply\"}"; exit 2; fi
TESTS=$(cd $WT && cargo test --workspace --offline 2>&1 | grep -E "^test result: " | head -1)
(cd $WT && cargo build --offline -q 2>/dev/null); cp $CARGO_TARGET_DIR/debug/ucg $S/ucg-seeded
(cd $WT && $S/ucg-seeded test -r integration_tests >/dev/null 2>&1); IT=$?
(cd $WT && $S/ucg-seeded test -r std/tests >/dev/null 2>&1); ST=$?
SEEDED=$(run_demo $S/ucg-seeded seeded)
git -C $WT checkout -q -- . ; git -C $WT clean -fdq -e target
echo "CONFIRM {\"demo_on_unchanged\": $BASE, \"demo_on_seeded\": $SEEDED, \"cargo_test\": \"$TESTS\", \"integration_tests_exit\": $IT, \"std_tests_exit\": $ST}"
)
if [ $# -gt 0 ]; then
  SEED_REPO=$S/repo SEED_VERIF=$S/verif VERIF_JOBS=${VERIF_JOBS:-6} $S/verif/tools/try_seed.py $D/patch.diff "$@"
fi
