#!/usr/bin/env python3
"""tools/add_fixed.py PROP COMMIT SIG WHAT WITNESS -- append a status=fixed entry to known_findings.json (by hand, never at check time)."""
import json, sys
prop, commit, sig, what, witness = sys.argv[1:6]
p = "/verif/known_findings.json"
j = json.load(open(p))
j["findings"].append({"property": prop, "sig": sig, "status": "fixed", "commit": commit,
                      "what": "fixed: property=%s %s %s" % (prop, commit, what), "witness": witness})
json.dump(j, open(p, "w"), indent=1, ensure_ascii=False)
open(p, "a").write("\n")
