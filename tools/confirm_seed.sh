#!/bin/bash
# Confirm a seeded change independently: usage tools/confirm_seed.sh <dir with patch.diff and demo.*> 
# In a scratch worktree of /repo (HEAD): demo passes on the unchanged build; with the patch the project compiles,
# the repository suite passes (533), both `ucg test -r` steps exit 0, and the demo fails. Prints a JSON summary line.
set -u
D=$(realpath "$1")
WT=/tmp/confirm-wt
export CARGO_TARGET_DIR=/tmp/confirm-target CARGO_NET_OFFLINE=true RUST_BACKTRACE=0
export CARGO_HOME=${CARGO_HOME:-$HOME/.cargo} RUSTUP_HOME=${RUSTUP_HOME:-$HOME/.rustup}
export HOME=/tmp/confirm-home; mkdir -p $HOME
if [ ! -d $WT ]; then git -C /repo worktree add -q --detach $WT HEAD; fi
git -C $WT checkout -q --detach $(git -C /repo rev-parse HEAD) 2>/dev/null; git -C $WT checkout -q -- . ; git -C $WT clean -fdq
DEMO=$(ls $D/demo.sh $D/demo.py 2>/dev/null | head -1)
run_demo() { if [[ $DEMO == *.py ]]; then python3 $DEMO "$1" >/tmp/confirm-demo.log 2>&1; else bash $DEMO "$1" >/tmp/confirm-demo.log 2>&1; fi; echo $?; }
(cd $WT && cargo build --offline -q 2>/dev/null) ; cp $CARGO_TARGET_DIR/debug/ucg /tmp/confirm-ucg-base
BASE=$(run_demo /tmp/confirm-ucg-base)
git -C $WT apply $D/patch.diff || { echo '{"error":"patch does not apply"}'; exit 2; }
TESTS=$(cd $WT && cargo test --workspace --offline 2>&1 | grep -E "^test result: " | head -1)
(cd $WT && cargo build --offline -q 2>/dev/null); cp $CARGO_TARGET_DIR/debug/ucg /tmp/confirm-ucg-seeded
(cd $WT && /tmp/confirm-ucg-seeded test -r integration_tests >/dev/null 2>&1); IT=$?
(cd $WT && /tmp/confirm-ucg-seeded test -r std/tests >/dev/null 2>&1); ST=$?
SEEDED=$(run_demo /tmp/confirm-ucg-seeded)
git -C $WT checkout -q -- . ; git -C $WT clean -fdq
echo "{\"demo_on_unchanged\": $BASE, \"demo_on_seeded\": $SEEDED, \"cargo_test\": \"$TESTS\", \"integration_tests_exit\": $IT, \"std_tests_exit\": $ST}"
