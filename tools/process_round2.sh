#!/bin/bash
# usage: tools/process_round2.sh <ID> [extra check ids...]   -- for a round-2 seed dir /tmp/seed/<ID> with patchA/patchB
ID=$1; shift; EXTRA="$@"
for X in A B C; do
  S=/tmp/seed/$ID
  [ -f $S/patch$X.diff ] || { echo "## $ID-$X: no patch"; continue; }
  mkdir -p $S/$X; cp $S/patch$X.diff $S/$X/patch.diff; cp $S/NOTES-$X.md $S/$X/NOTES.md 2>/dev/null
  for d in demo$X.sh demo$X.py; do [ -f $S/$d ] && cp $S/$d $S/$X/${d/$X/}; done
  echo "## $ID-$X try_seed"; /verif/tools/try_seed.py $S/$X/patch.diff $ID $EXTRA 2>&1 | grep -E "^== |sig:|quick:|rror" | head -8 | cut -c1-230
  echo "## $ID-$X confirm"; /verif/tools/confirm_seed.sh $S/$X 2>&1 | tail -1
done
