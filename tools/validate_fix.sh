#!/bin/sh
# Validation of a candidate change to /repo: the repository's own suite (unedited) plus the two
# CI steps that are not cargo tests. Usage: tools/validate_fix.sh
set -e
cd /repo
echo "== cargo test --workspace --offline"
cargo test --workspace --no-fail-fast --offline 2>&1 | grep -E "^test result|FAILED|failed" | head -20
echo "== build ucg from working tree"
(cd /verif && python3 -c "import sys; sys.path.insert(0,'py'); from vf import core; core.build()")
export HOME=$(mktemp -d)
echo "== ucg test -r integration_tests"
/verif/.build/target/release/ucg test -r integration_tests > $HOME/it.log 2>&1 && echo PASS || { echo FAIL; tail -30 $HOME/it.log; }
echo "== ucg test -r std/tests"
/verif/.build/target/release/ucg test -r std/tests > $HOME/st.log 2>&1 && echo PASS || { echo FAIL; tail -30 $HOME/st.log; }
rm -rf "$HOME"
