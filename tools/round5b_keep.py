import json, subprocess
conf={"how":"tools/confirm_seed.sh in a scratch worktree of /repo HEAD with its own target dir","demo_on_unchanged_build":"exit 0","patch_compiles":True,
 "cargo_test_with_patch":"533 passed; 0 failed","ucg_test_-r_integration_tests_with_patch":"exit 0","ucg_test_-r_std_tests_with_patch":"exit 0","demo_on_seeded_build":"exit 1"}
R5="fifth round, second half (the other 8 properties): three changes per agent, one per category (A two steps apart, B what the manual promises, C a repair undone)"
AS="caught by the check as it was"
def M(x): return "MISSED by the check as it was; caught after "+x
seeds=[
 ("C02","B","C02","C02-in-on-sum-level","BinaryExprType::precedence_level: IN returns 3 (the level of + and -) instead of 2","+ or - to the right of an unparenthesised in: 3 in [1] + [3]",
   {"C02":AS+": sigs `paren2:(a in b + c);` ..."}),
 ("C03","C","C03","C03-yamlmulti-blank-line-between-documents","MultiYamlConverter::convert_list (the repair 567fbcb) writes an empty line before the --- of every document but the first","yamlmulti with a document that is not the last and ends in a string with trailing line breaks (or consists of line breaks)",
   {"C03":M("strings ending in line breaks were put in every position of streams of two and three documents (5 strings x 5 stream shapes): sigs `yamlmulti:DECODES-DIFFERENTLY:[str-only-newlines,str-only-newlines]`, `artifact:yamlmulti:...`")}),
 ("C04","A","C09","C04-format-expression-vm-without-import-stack","VM::op_new_scope: the child VM that evaluates the @{...} expressions of a format string no longer receives the import stack","an import cycle in which one import sits inside a format expression (and both are of the inline form the static cycle check does not follow): stack overflow instead of `Import cycle detected`",
   {"C09":M("the cycle graphs on 1-2 files were also written with the import evaluated by a child VM (format expression, function body, module body, map callback): sigs `graph:format-expression:self-loop:exit-status--6`, `graph:format-expression:cycle:exit-status--6` (SIGABRT)"),"C04":"not reached by C04's inputs (single texts, no files importing each other); the crash is reported by C09"}),
 ("C04","C","C04","C04-empty-parts-guard-tests-the-template-text","translate.rs, expression-form format (the repair e8bd155): the `parts.is_empty()` guard moved in front of the parse as `template.is_empty()`","a template that is not empty but parses to zero parts: a lone backslash",
   {"C04":AS+" (every template of length <= 4 over 6 characters): sig `panic:eval:translate.rs:called Option::unwrap() on a None value`"}),
 ("C08","B","C08","C08-list-flag-name-written-before-the-item-is-vetted","flags write_list_flag: the list / tuple pre-check removed, so the flag name is written before write_simple_value refuses the item","a list-valued flag with a nested list or tuple item: an orphan --name swallows the next word",
   {"C08":AS+" (list items of every kind in every order): sigs `list-flag-items:sh:word-count-more:first-skipped=list` ..."}),
 ("C08","C","C08","C08-env-constraint-field-not-skipped","env convert_tuple (the repair 57ccdd5): the three skip checks folded into one condition without the constraint case","an env tuple with a constraint-valued field before other fields: PORT_SHAPE=B='...'",
   {"C08":M("a constraint value joined the kinds of fields in the env / flags tuples (every order of up to 3 fields): sigs `env-fields:sh:skipped-field-defined:first-skipped=none` ...")}),
 ("C11","A","C17","C11-with-src-file-resets-offsets","OffsetStrIter::with_src_file rebuilds the iterator through a helper that resets the line and column offsets set by new_with_offsets","a fault inside an @{} expression of a built file (format.rs sets the offsets first and the file afterwards): reported at line 1 of the embedded text",
   {"C17":AS+" (format-expression positions): sigs `primary-position-before-faulty-statement:missing-index:format-expression:build` / `:cli` (eval_string, which sets no file, is not affected — the route the agent's category asked for)","C11":"not reached by C11 (tokenize() is driven with zero offsets)"}),
 ("C12","C","C12","C12-empty-encoding-accepted","xml write(), encoding check (the repair 19bb0bf) rewritten as one enumerate().all(..), which is true for no characters","encoding = \"\": the declaration reads encoding=\"\" and the document is not well-formed",
   {"C12":M("an empty and a blank encoding were added to the encoding documents: sig `ACCEPTS-MALFORMED:encoding-empty:encoding is not an encoding name`")}),
 ("C14","B","C14","C14-extension-stripped-twice","VM::op_runtime hands the hooks the path with its extension already removed; Builtins::out removes it again","a source file with a dot in its stem: api.prod.ucg writes api.json",
   {"C14":AS+" (file-name stems with dots, since the first round): sigs `json:convertible:1out:after-nothing:listing:+my.json-STEM.json` ..."}),
 ("C14","C","C14","C14-failed-conversion-deletes-the-earlier-artifact","Builtins::out (the repair 3f9edbe) streams into File::create and removes the file again when the converter fails","a failed conversion in a directory that holds an artifact of an earlier successful build",
   {"C14":AS+": sigs `toml:unconvertible:1out:after-good-artifact:listing:-STEM.toml` ..."}),
]
for agent_prop,X,prop,name,summary,needs,det in seeds:
    frag={"summary":summary,"needs_to_manifest":needs,"detected_by":det,"confirmed_by_me":conf,"round":R5}
    if agent_prop!=prop: frag["written_for_property"]=agent_prop
    subprocess.check_call(["/verif/tools/keep_seed.py","/tmp/seed/%s/%s"%(agent_prop,X),name,prop,json.dumps(frag)])
