#!/usr/bin/env python3
"""Regression pass over the kept seeded changes: apply each /verif/seeded/<name>/patch.diff to /repo,
run the quick check of the property it breaks, undo it. A seed whose check exits 0 is reported as MISSED.
usage: tools/recheck_seeds.py [name-prefix ...]"""
import json, os, subprocess, sys
root = "/verif/seeded"
REPO = os.environ.get("SEED_REPO", "/repo")
sel = sys.argv[1:]
missed = []
for name in sorted(os.listdir(root)):
    if sel and not any(name.startswith(p) for p in sel):
        continue
    if not os.path.isdir(os.path.join(root, name)):
        continue
    meta = json.load(open(os.path.join(root, name, "meta.json")))
    prop = meta["breaks_property"]
    patch = os.path.join(root, name, "patch.diff")
    if subprocess.run(["git", "-C", REPO, "apply", "--check", patch], capture_output=True).returncode != 0:
        print("%-45s PATCH DOES NOT APPLY to current /repo HEAD" % name, flush=True)
        missed.append(name)
        continue
    p = subprocess.run([os.path.join(os.environ.get("SEED_VERIF", "/verif"), "tools/try_seed.py"), patch, prop], capture_output=True, text=True)
    rc = [l for l in p.stdout.splitlines() if l.startswith("== ")]
    sigs = [l.strip()[5:] for l in p.stdout.splitlines() if l.strip().startswith("sig:")]
    ok = any("rc=1" in l for l in rc)
    print("%-45s %s %s" % (name, "caught" if ok else "MISSED", "; ".join(sigs[:2])[:150]), flush=True)
    if not ok:
        missed.append(name)
        print(p.stdout[-600:], p.stderr[-600:])
print("missed:", missed)
sys.exit(1 if missed else 0)
