#!/usr/bin/env python3
"""Old-vs-new differential for parser/tokenizer/printer fixes (DESIGN section 6, step 5).
usage: diff_parsers.py <old ucgmc> [op]    (new = /verif/.build/target/release/ucgmc)
Inputs: C04 token tuples <= 3 (bare + let), format/raw/arith generators, repo files + corpus and
their token mutations, nesting forms to depth 7. Compared: same normalised AST, or both fail at
the same position. Differences are printed (first 40) and counted by class."""
import sys, os, collections, multiprocessing
sys.path.insert(0, os.path.join(os.path.dirname(os.path.abspath(__file__)), "..", "py"))
from vf import core
from checks import c04

OLD = sys.argv[1]
OP = sys.argv[2] if len(sys.argv) > 2 else "parse"

def inputs():
    for c, s in c04.gen_tokens(3, c04.VOCAB): yield s
    for c, s in c04.gen_arith(): yield s
    for c, s in c04.gen_format(): yield s
    for c, s in c04.gen_raw(): yield s
    for name, srcs in c04.gen_nesting(7):
        for s in srcs: yield s
    files = c04.repo_sources(250000) + c04.corpus_sources()
    for n, s in files: yield s
    for n, s in files:
        if len(s) <= 1300:
            for k, m in c04.mutations(s): yield m

_old = None
def work(chunk):
    global _old
    new = core.worker_server(timeout=60)
    if _old is None:
        core.UCGMC_SAVE = core.UCGMC
        core.UCGMC = OLD
        _old = core.Server(timeout=60)
        core.UCGMC = core.UCGMC_SAVE
    a = _old.req_many([{"op": OP, "src": s} for s in chunk])
    b = new.req_many([{"op": OP, "src": s} for s in chunk])
    diffs = []
    cnt = collections.Counter()
    for s, x, y in zip(chunk, a, b):
        if "ok" in x and "ok" in y:
            if x["ok"] == y["ok"]: cnt["same-ok"] += 1
            else: cnt["DIFF-ok"] += 1; diffs.append((s, x, y))
        elif "err" in x and "err" in y:
            if x.get("pos") == y.get("pos"): cnt["same-err-pos"] += 1
            else: cnt["err-pos-differs"] += 1; diffs.append((s, x, y))
        elif ("hang" in x or "abort" in x) and "ok" in y: cnt["old-hang-new-ok"] += 1
        else: cnt["DIFF-verdict"] += 1; diffs.append((s, x, y))
    return cnt, diffs[:20]

if __name__ == "__main__":
    total = collections.Counter(); shown = 0
    for cnt, diffs in core.pmap_gen(work, inputs(), chunk=2000):
        total.update(cnt)
        for s, x, y in diffs:
            if shown < 40:
                print("DIFF", repr(s)[:160], "\n   old:", str(x)[:200], "\n   new:", str(y)[:200]); shown += 1
    print(dict(total))
