#!/usr/bin/env python3
"""Copy a confirmed seeded change into /verif/seeded/<name>/ (patch.diff, demonstration, NOTES.md, meta.json).
usage: keep_seed.py <src dir> <name> <property> <json meta fragment>"""
import json, os, shutil, sys, subprocess
src, name, prop, frag = sys.argv[1], sys.argv[2], sys.argv[3], json.loads(sys.argv[4])
dst = os.path.join("/verif/seeded", name)
os.makedirs(dst, exist_ok=True)
for f in ("patch.diff", "demo.sh", "demo.py", "NOTES.md"):
    p = os.path.join(src, f)
    if os.path.exists(p):
        shutil.copy(p, dst)
files = sorted(set(l[6:].strip() for l in open(os.path.join(dst, "patch.diff")) if l.startswith("+++ b/")))
meta = {"breaks_property": prop, "files_touched": files, "repo_head_when_confirmed": subprocess.check_output(["git", "-C", "/repo", "rev-parse", "--short", "HEAD"]).decode().strip(),
        "origin": "written by an independent sub-agent that was given only the property text and a scratch worktree"}
meta.update(frag)
json.dump(meta, open(os.path.join(dst, "meta.json"), "w"), indent=1)
print("kept", dst)
