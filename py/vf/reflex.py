"""Independent maximal-munch reference lexer for ucg source text, written from
docsite/site/content/reference/grammar.md (token list) — not from src/tokenizer.

lex(text) -> list of (type, value, byte_offset, line, col_bytes, col_chars) ending with END,
or raises LexError.

Pinned lexical habits (DESIGN C11; they concern what a *word* is, which the property does not
speak about): `true`, `false`, `NULL` are recognised as prefixes without a word boundary; digits
followed by letters split; a keyword is the same BAREWORD token whether or not white space
follows it.
"""

PUNCT = sorted([
    ".", "..", ",", "{", "}", "(", ")", "[", "]", "+", "-", "*", "/", "%%", "%", "==", "!=", "~", "!~",
    ">=", "<=", ">", "<", "=>", "=", ";", "::", ":", "&&", "||", "|",
], key=lambda s: -len(s))

WS = " \t\n\r"
ALPHA = "abcdefghijklmnopqrstuvwxyzABCDEFGHIJKLMNOPQRSTUVWXYZ"
DIGITS = "0123456789"
WORD = ALPHA + DIGITS + "-_"


class LexError(Exception):
    def __init__(self, msg, offset):
        Exception.__init__(self, msg, offset)
        self.offset = offset

    def __str__(self):
        return str(self.args[0])


def decode_string_body(text, i):
    """text[i] is the char after the opening quote. Returns (value, index after closing quote).
    Documented escapes: \\n \\r \\t; backslash followed by any other char yields that char."""
    out = []
    n = len(text)
    while i < n:
        c = text[i]
        if c == "\\":
            if i + 1 >= n:
                raise LexError("unterminated string", i)
            d = text[i + 1]
            out.append({"n": "\n", "r": "\r", "t": "\t"}.get(d, d))
            i += 2
        elif c == '"':
            return "".join(out), i + 1
        else:
            out.append(c)
            i += 1
    raise LexError("unterminated string", i)


def lex(text):
    toks = []
    i = 0
    n = len(text)
    # positions: we walk characters; byte offsets are computed incrementally
    boff = 0          # byte offset of text[i]
    line = 1
    line_start_b = 0  # byte offset of the start of the current line
    line_start_c = 0  # char index of the start of the current line

    def advance(j):
        nonlocal i, boff, line, line_start_b, line_start_c
        while i < j:
            c = text[i]
            boff += len(c.encode("utf-8"))
            i += 1
            if c == "\n":
                line += 1
                line_start_b = boff
                line_start_c = i

    def emit(typ, val):
        toks.append((typ, val, boff, line, boff - line_start_b + 1, i - line_start_c + 1))

    while i < n:
        c = text[i]
        if c in WS:
            advance(i + 1)
            continue
        if c == '"':
            val, j = decode_string_body(text, i + 1)
            emit("QUOTED", val)
            advance(j)
            continue
        if text.startswith("//", i):
            j = text.find("\n", i)
            advance(n if j < 0 else j + 1)
            continue
        if text.startswith("NULL", i):
            emit("EMPTY", "NULL")
            advance(i + 4)
            continue
        if c in DIGITS:
            j = i
            while j < n and text[j] in DIGITS:
                j += 1
            emit("DIGIT", text[i:j])
            advance(j)
            continue
        matched = None
        for p in PUNCT:
            if text.startswith(p, i):
                matched = p
                break
        if matched:
            emit("PUNCT", matched)
            advance(i + len(matched))
            continue
        if text.startswith("true", i):
            emit("BOOLEAN", "true")
            advance(i + 4)
            continue
        if text.startswith("false", i):
            emit("BOOLEAN", "false")
            advance(i + 5)
            continue
        if c in ALPHA:
            j = i
            while j < n and text[j] in WORD:
                j += 1
            emit("BAREWORD", text[i:j])
            advance(j)
            continue
        raise LexError("no token starts with %r" % c, boff)
    emit("END", "")
    return toks


def comments(text):
    """Independent comment scanner: the texts of all `//` comments outside string literals, in
    order (text after the slashes up to, not including, the line break)."""
    out = []
    i = 0
    n = len(text)
    while i < n:
        c = text[i]
        if c == '"':
            try:
                _, i = decode_string_body(text, i + 1)
            except LexError:
                return out
            continue
        if text.startswith("//", i):
            j = text.find("\n", i)
            end = n if j < 0 else j
            body = text[i + 2:end]
            if body.endswith("\r"):
                body = body[:-1]
            out.append(body)
            i = end
            continue
        i += 1
    return out
