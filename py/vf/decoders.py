"""Independent decoders for the output formats and the comparison of a decoded document with the
ucg value it is supposed to represent (wire encoding of mc/src/main.rs).

- JSON: CPython json with NaN/Infinity rejected (they are not JSON).
- YAML: PyYAML's *parser/composer* only; plain scalars are resolved by a YAML 1.2 core-schema
  resolver written here, because PyYAML's default resolver is YAML 1.1 (yes/on/1:30/1e20 misread).
- TOML: tomllib.
- XML: expat (see xmltree()).
"""
import json
import math
import re
import tomllib
from fractions import Fraction

import yaml


class Invalid(Exception):
    pass


# ---------------------------------------------------------------------------------------------
# decoders -> python objects: None, bool, int, float, str, list, dict (and Dup for duplicate keys)

def json_decode(text):
    def bad(c):
        raise Invalid("non-JSON constant %s" % c)
    try:
        return json.loads(text, parse_constant=bad, object_pairs_hook=_pairs)
    except Invalid:
        raise
    except (ValueError, RecursionError) as e:
        raise Invalid("json: %s" % e)


def _pairs(pairs):
    d = {}
    for k, v in pairs:
        if k in d:
            raise Invalid("duplicate key %r" % k)
        d[k] = v
    return d


_Y_NULL = re.compile(r"^(null|Null|NULL|~|)$")
_Y_BOOL = re.compile(r"^(true|True|TRUE|false|False|FALSE)$")
_Y_INT = re.compile(r"^[-+]?[0-9]+$")
_Y_OCT = re.compile(r"^0o[0-7]+$")
_Y_HEX = re.compile(r"^0x[0-9a-fA-F]+$")
_Y_FLOAT = re.compile(r"^[-+]?(\.[0-9]+|[0-9]+(\.[0-9]*)?)([eE][-+]?[0-9]+)?$")
_Y_INF = re.compile(r"^[-+]?\.(inf|Inf|INF)$")
_Y_NAN = re.compile(r"^\.(nan|NaN|NAN)$")


def yaml12_scalar(node):
    v = node.value
    if node.style is not None:       # quoted or block scalar: always a string
        return v
    tag = node.tag
    if tag and tag.startswith("tag:yaml.org,2002:") and not _implicit(node):
        # explicit core tag
        t = tag.rsplit(":", 1)[1]
        if t == "str":
            return v
    if _Y_NULL.match(v):
        return None
    if _Y_BOOL.match(v):
        return v.lower() == "true"
    if _Y_INT.match(v):
        return int(v)
    if _Y_OCT.match(v):
        return int(v[2:], 8)
    if _Y_HEX.match(v):
        return int(v[2:], 16)
    if _Y_FLOAT.match(v):
        return float(v)
    if _Y_INF.match(v):
        return float("-inf") if v.startswith("-") else float("inf")
    if _Y_NAN.match(v):
        return float("nan")
    return v


def _implicit(node):
    # PyYAML records whether the tag was resolved implicitly only on events; on nodes a plain
    # scalar without explicit tag has been resolved by the (1.1) resolver, which we ignore.
    return True


def _yaml_node(node):
    if isinstance(node, yaml.ScalarNode):
        return yaml12_scalar(node)
    if isinstance(node, yaml.SequenceNode):
        return [_yaml_node(n) for n in node.value]
    if isinstance(node, yaml.MappingNode):
        d = {}
        for k, v in node.value:
            kk = _yaml_node(k)
            if isinstance(kk, (list, dict)):
                raise Invalid("complex key")
            if not isinstance(kk, str):
                kk = ("nonstr", kk)       # a key that does not read back as a string
            if kk in d:
                raise Invalid("duplicate key %r" % (kk,))
            d[kk] = _yaml_node(v)
        return d
    raise Invalid("unknown node %r" % node)


def yaml_decode_all(text):
    try:
        docs = list(yaml.compose_all(text, Loader=yaml.SafeLoader))
    except yaml.YAMLError as e:
        raise Invalid("yaml: %s" % str(e).replace("\n", " ")[:200])
    return [None if d is None else _yaml_node(d) for d in docs]


def yaml_decode(text):
    docs = yaml_decode_all(text)
    if len(docs) != 1:
        raise Invalid("expected one YAML document, found %d" % len(docs))
    return docs[0]


def toml_decode(text):
    try:
        return tomllib.loads(text)
    except (tomllib.TOMLDecodeError, ValueError, RecursionError) as e:
        raise Invalid("toml: %s" % e)


# ---------------------------------------------------------------------------------------------
# comparison

def num_equal(a, b):
    """numbers of equal numeric value (exact rationals; NaN = NaN; infinities by sign)"""
    if isinstance(a, bool) or isinstance(b, bool):
        return False
    fa, fb = isinstance(a, float), isinstance(b, float)
    if fa and a != a:
        return fb and b != b
    if fb and b != b:
        return False
    if (fa and math.isinf(a)) or (fb and math.isinf(b)):
        return fa and fb and a == b
    return Fraction(a) == Fraction(b)


def equiv(w, d, path="$"):
    """w: wire value (None, bool, str, {"i"}, {"f"}, {"l"}, {"t"}); d: decoded python object.
    Returns None if equivalent else a string describing the first difference."""
    if w is None:
        return None if d is None else "%s: expected null, decoded %r" % (path, d)
    if isinstance(w, bool):
        return None if d is w else "%s: expected %r, decoded %r" % (path, w, d)
    if isinstance(w, str):
        return None if (isinstance(d, str) and d == w) else "%s: expected string %r, decoded %r" % (path, w, d)
    if "i" in w:
        n = int(w["i"])
        if isinstance(d, (int, float)) and not isinstance(d, bool) and num_equal(n, d):
            return None
        return "%s: expected integer %d, decoded %r" % (path, n, d)
    if "f" in w:
        x = float("nan") if w["f"] == "NaN" else float(w["f"])
        if isinstance(d, (int, float)) and not isinstance(d, bool) and num_equal(x, d):
            return None
        return "%s: expected float %r, decoded %r" % (path, x, d)
    if "l" in w:
        if not isinstance(d, list):
            return "%s: expected a list, decoded %r" % (path, type(d).__name__)
        if len(d) != len(w["l"]):
            return "%s: expected %d items, decoded %d" % (path, len(w["l"]), len(d))
        for i, (a, b) in enumerate(zip(w["l"], d)):
            r = equiv(a, b, "%s[%d]" % (path, i))
            if r:
                return r
        return None
    if "t" in w:
        if not isinstance(d, dict):
            return "%s: expected a mapping, decoded %r" % (path, type(d).__name__)
        keys = [k for k, _ in w["t"]]
        if set(keys) != set(d.keys()):
            return "%s: key sets differ: expected %r, decoded %r" % (path, sorted(keys), sorted(map(str, d.keys())))
        seen = set()
        for k, v in w["t"]:
            if k in seen:
                continue        # a repeated field name: selection reads the first field of that name
            seen.add(k)
            r = equiv(v, d[k], "%s.%s" % (path, k))
            if r:
                return r
        return None
    return "%s: unsupported wire value %r" % (path, w)


def has(w, pred):
    if pred(w):
        return True
    if isinstance(w, dict):
        if "l" in w:
            return any(has(x, pred) for x in w["l"])
        if "t" in w:
            return any(has(v, pred) for _, v in w["t"])
    return False


def is_null(w):
    return w is None


def is_nonfinite(w):
    return isinstance(w, dict) and "f" in w and w["f"] in ("NaN", "inf", "-inf")


def is_constraint(w):
    return isinstance(w, dict) and "k" in w
