"""Minimal LSP client over stdio for `ucg lsp` (JSON-RPC with Content-Length framing).

Synchronisation: the server handles messages strictly in order, so a request sent after a batch
of notifications acts as a barrier: everything the notifications publish has been written
before the response to that request. sync() sends a cheap request and reads until its response.
"""
import json
import os
import select
import subprocess
import time

from . import core


class ServerDied(Exception):
    pass


class Client:
    def __init__(self, root, timeout=20.0):
        self.root = root
        self.timeout = timeout
        self.next_id = 1
        self.buf = b""
        self.notifications = []       # (method, params) in arrival order
        self.responses = {}
        env = core.clean_env(home=root)
        self.p = subprocess.Popen([core.UCG, "lsp"], cwd=root, env=env, stdin=subprocess.PIPE, stdout=subprocess.PIPE, stderr=subprocess.DEVNULL, bufsize=0)
        os.set_blocking(self.p.stdout.fileno(), False)
        r = self.request("initialize", {"processId": None, "rootUri": "file://" + root, "capabilities": {}})
        if r is None or "result" not in r:
            raise ServerDied("initialize failed: %r" % (r,))
        self.notify("initialized", {})

    # -- wire -----------------------------------------------------------------------------
    def _send(self, obj):
        body = json.dumps(obj).encode("utf-8")
        try:
            self.p.stdin.write(b"Content-Length: %d\r\n\r\n" % len(body) + body)
            self.p.stdin.flush()
        except (BrokenPipeError, OSError):
            raise ServerDied("write failed (exit %r)" % self.p.poll())

    def _read_message(self, deadline):
        while True:
            hdr_end = self.buf.find(b"\r\n\r\n")
            if hdr_end >= 0:
                header = self.buf[:hdr_end].decode("ascii", "replace")
                length = None
                for line in header.split("\r\n"):
                    if line.lower().startswith("content-length:"):
                        length = int(line.split(":", 1)[1].strip())
                if length is not None and len(self.buf) >= hdr_end + 4 + length:
                    body = self.buf[hdr_end + 4:hdr_end + 4 + length]
                    self.buf = self.buf[hdr_end + 4 + length:]
                    return json.loads(body.decode("utf-8"))
            remaining = deadline - time.time()
            if remaining <= 0:
                return None
            r, _, _ = select.select([self.p.stdout.fileno()], [], [], min(remaining, 0.5))
            if r:
                try:
                    chunk = os.read(self.p.stdout.fileno(), 1 << 16)
                except BlockingIOError:
                    chunk = None
                if chunk == b"":
                    raise ServerDied("stdout closed (exit %r)" % self.p.wait())
                if chunk:
                    self.buf += chunk
            elif self.p.poll() is not None:
                raise ServerDied("process exited %r" % self.p.returncode)

    def notify(self, method, params):
        self._send({"jsonrpc": "2.0", "method": method, "params": params})

    def send_request(self, method, params):
        i = self.next_id
        self.next_id += 1
        self._send({"jsonrpc": "2.0", "id": i, "method": method, "params": params})
        return i

    def wait_for(self, ids):
        """read until all ids are answered; returns {id: message or None (not answered in time)}"""
        deadline = time.time() + self.timeout
        want = set(ids)
        while want - set(self.responses):
            m = self._read_message(deadline)
            if m is None:
                break
            if "id" in m and ("result" in m or "error" in m):
                self.responses[m["id"]] = m
            elif "method" in m:
                self.notifications.append((m["method"], m.get("params")))
        return {i: self.responses.get(i) for i in ids}

    def request(self, method, params):
        i = self.send_request(method, params)
        return self.wait_for([i])[i]

    def sync(self):
        r = self.request("workspace/symbol", {"query": "zzzz-no-such-symbol"})
        if r is None:
            raise ServerDied("no answer to the barrier request within %.0fs (alive=%s)" % (self.timeout, self.p.poll() is None))

    # -- documents ------------------------------------------------------------------------
    def uri(self, name):
        return "file://" + os.path.join(self.root, name)

    def open(self, name, text):
        self.notify("textDocument/didOpen", {"textDocument": {"uri": self.uri(name), "languageId": "ucg", "version": 1, "text": text}})

    def change(self, name, text, decoy=True):
        # Full-text sync: every content change replaces the whole document, so the LAST one is the
        # current text. A decoy change with a syntax error goes first so that a server that took
        # the first (or merged them) publishes something else.
        changes = ([{"text": "let decoy = ;\n"}] if decoy else []) + [{"text": text}]
        self.notify("textDocument/didChange", {"textDocument": {"uri": self.uri(name), "version": 2}, "contentChanges": changes})

    def close_doc(self, name):
        self.notify("textDocument/didClose", {"textDocument": {"uri": self.uri(name)}})

    def last_diagnostics(self):
        """{uri: diagnostics of the last publish for that uri}"""
        out = {}
        for method, params in self.notifications:
            if method == "textDocument/publishDiagnostics":
                out[params["uri"]] = params["diagnostics"]
        return out

    def alive(self):
        return self.p.poll() is None

    def shutdown(self):
        try:
            if self.alive():
                self.request("shutdown", None)
                self.notify("exit", None)
                try:
                    self.p.wait(timeout=5)
                except subprocess.TimeoutExpired:
                    pass
        except (ServerDied, OSError):
            pass
        finally:
            try:
                self.p.kill()
            except OSError:
                pass
            try:
                self.p.wait(timeout=5)
            except Exception:
                pass
            for f in (self.p.stdin, self.p.stdout):
                try:
                    f.close()
                except Exception:
                    pass
