"""Shared machinery for the bounded-exhaustive checks of zaphar/ucg (see DESIGN.md section 3).

- build():          one offline cargo build of /verif/mc -> ucgmc (batch server) + ucg (real CLI),
                    always from /repo's current working tree.
- Server:           JSON-lines client for `ucgmc serve` with per-request watchdog, abort/hang
                    attribution and automatic restart.
- pmap():           fixed-partition parallel map over worker processes, each with its own Server.
- Ctx:              counters, outcome histogram, samples, violations, known-findings matching,
                    evidence + replay writing, exit status.
"""
import collections
import fnmatch
import hashlib
import json
import multiprocessing
import os
import select
import shutil
import signal
import subprocess
import sys
import tempfile
import time

VERIF = os.path.dirname(os.path.dirname(os.path.dirname(os.path.abspath(__file__))))
REPO = os.environ.get("UCG_REPO", "/repo")
BUILD_DIR = os.path.join(VERIF, ".build")
TARGET = os.path.join(BUILD_DIR, "target")
BIN = os.path.join(TARGET, "release")
UCGMC = os.path.join(BIN, "ucgmc")
UCG = os.path.join(BIN, "ucg")
NPROC = int(os.environ.get("VERIF_JOBS", str(min(16, os.cpu_count() or 4))))

EXIT_OK, EXIT_VIOLATION, EXIT_MACHINERY = 0, 1, 2


class MachineryError(Exception):
    pass


# --------------------------------------------------------------------------------------------
# build

def _sha(path):
    try:
        with open(path, "rb") as f:
            return hashlib.sha256(f.read()).hexdigest()
    except OSError:
        return None


def build(quiet=True, profile="release"):
    """Build ucgmc + ucg from /repo's working tree. Raises MachineryError on failure."""
    os.makedirs(BUILD_DIR, exist_ok=True)
    mc = os.path.join(VERIF, "mc")
    # Follow /repo's lock file (offline resolution must see the same versions).
    lock_src = os.path.join(REPO, "Cargo.lock")
    stamp = os.path.join(BUILD_DIR, "repo_lock.sha")
    cur = _sha(lock_src)
    old = open(stamp).read().strip() if os.path.exists(stamp) else None
    if cur and cur != old:
        # keep our own package entry: cargo re-adds it on build
        shutil.copyfile(lock_src, os.path.join(mc, "Cargo.lock"))
        with open(stamp, "w") as f:
            f.write(cur)
    # mc/Cargo.toml is rendered from Cargo.toml.in with the repository path (default /repo; UCG_REPO
    # lets a background run work on a snapshot of the repository while /repo itself is being edited)
    tpl = os.path.join(mc, "Cargo.toml.in")
    if os.path.exists(tpl):
        want = open(tpl).read().replace("@REPO@", REPO)
        cur_toml = os.path.join(mc, "Cargo.toml")
        if not os.path.exists(cur_toml) or open(cur_toml).read() != want:
            with open(cur_toml, "w") as f:
                f.write(want)
    env = dict(os.environ)
    env.update({"CARGO_TARGET_DIR": TARGET, "CARGO_NET_OFFLINE": "true", "RUST_BACKTRACE": "0"})
    env.pop("RUSTFLAGS", None)
    cmd = ["cargo", "build", "--offline", "--bins"]
    if profile == "release":
        cmd.append("--release")
    t0 = time.time()
    p = subprocess.run(cmd, cwd=mc, env=env, stdout=subprocess.PIPE, stderr=subprocess.STDOUT, text=True)
    if p.returncode != 0:
        sys.stderr.write(p.stdout[-6000:])
        raise MachineryError("cargo build of /verif/mc failed (exit %d)" % p.returncode)
    if not quiet:
        print("build ok in %.1fs" % (time.time() - t0))
    return time.time() - t0


# --------------------------------------------------------------------------------------------
# server client

class Server:
    """Client for one `ucgmc serve` process.

    req(obj) -> response dict. Besides what the server itself answers ({"ok":..}, {"err":..},
    {"panic":..}) two synthetic answers exist: {"abort": <signal or exit code>} when the
    process died while handling the request and {"hang": seconds} when the per-request watchdog
    expired; in both cases the process is restarted so the caller can go on.
    """

    def __init__(self, timeout=20.0, stack_mb=256, cwd=None, env=None, mem_gb=6):
        self.mem_gb = mem_gb
        self.timeout = timeout
        self.stack_mb = stack_mb
        self.cwd = cwd
        self.extra_env = env or {}
        self.p = None
        self.buf = b""
        self.restarts = 0
        self._start()

    def _start(self):
        env = {"PATH": os.environ.get("PATH", "/usr/bin:/bin"), "HOME": scratch_home(), "RUST_BACKTRACE": "0",
               "LC_ALL": "C.UTF-8", "UCGMC_STACK_MB": str(self.stack_mb)}
        env.update(self.extra_env)
        mem = self.mem_gb << 30

        def limits():
            import resource
            resource.setrlimit(resource.RLIMIT_AS, (mem, mem))
            resource.setrlimit(resource.RLIMIT_CORE, (0, 0))

        self.p = subprocess.Popen([UCGMC, "serve"], stdin=subprocess.PIPE, stdout=subprocess.PIPE,
                                  stderr=subprocess.DEVNULL, cwd=self.cwd, env=env, bufsize=0, preexec_fn=limits)
        self.buf = b""
        os.set_blocking(self.p.stdout.fileno(), False)
        os.set_blocking(self.p.stdin.fileno(), False)

    def close(self):
        if self.p:
            try:
                self.p.kill()
            except OSError:
                pass
            try:
                self.p.wait(timeout=5)
            except Exception:
                pass
            for f in (self.p.stdin, self.p.stdout):
                try:
                    f.close()
                except Exception:
                    pass
            self.p = None

    def _restart(self):
        self.close()
        self.restarts += 1
        self._start()

    def recycle(self):
        """Start a new server process (fresh Environment, empty op cache)."""
        self.close()
        self._start()

    def req(self, obj, timeout=None):
        return self.req_many([obj], timeout)[0]

    def req_many(self, objs, timeout=None):
        """Pipeline a batch. Responses come back in order. The watchdog is per response: the clock
        restarts whenever a response arrives, so a hang is attributed to the first unanswered
        request; the rest of the batch is then re-sent to the restarted process."""
        timeout = timeout or self.timeout
        out = []
        pending = list(objs)
        while pending:
            got, failure = self._run_batch(pending, timeout)
            out.extend(got)
            pending = pending[len(got):]
            if failure is not None:
                out.append(failure)
                pending = pending[1:]
                self._restart()
        return out

    def _run_batch(self, objs, timeout):
        data = b"".join(json.dumps(o, ensure_ascii=True).encode() + b"\n" for o in objs)
        rfd, wfd = self.p.stdout.fileno(), self.p.stdin.fileno()
        sent = 0
        got = []
        last = time.time()
        while len(got) < len(objs):
            # complete lines already buffered?
            while b"\n" in self.buf and len(got) < len(objs):
                line, self.buf = self.buf.split(b"\n", 1)
                try:
                    got.append(json.loads(line))
                except ValueError:
                    raise MachineryError("unparsable server response: %r" % line[:200])
                last = time.time()
            if len(got) >= len(objs):
                break
            remaining = timeout - (time.time() - last)
            if remaining <= 0:
                return got, {"hang": timeout}
            wl = [wfd] if sent < len(data) else []
            r, w, _ = select.select([rfd], wl, [], min(remaining, 1.0))
            if w:
                try:
                    sent += os.write(wfd, data[sent:sent + 65536])
                except BlockingIOError:
                    pass
                except (BrokenPipeError, OSError):
                    rc = self.p.wait()
                    return got, {"abort": rc}
            if r:
                try:
                    chunk = os.read(rfd, 1 << 20)
                except BlockingIOError:
                    chunk = None
                if chunk == b"":
                    rc = self.p.wait()
                    return got, {"abort": rc}
                if chunk:
                    self.buf += chunk
        return got, None


_HOME = None


def scratch_home():
    """main.rs creates ~/.ucg; every child gets a scratch HOME."""
    global _HOME
    if _HOME is None or not os.path.isdir(_HOME):
        _HOME = tempfile.mkdtemp(prefix="ucgverif-home-")
        import atexit
        atexit.register(shutil.rmtree, _HOME, True)
    return _HOME


def clean_env(extra=None, home=None):
    env = {"PATH": "/usr/local/bin:/usr/bin:/bin", "HOME": home or scratch_home(), "LC_ALL": "C.UTF-8", "RUST_BACKTRACE": "0"}
    if extra:
        env.update(extra)
    return env


def run_ucg(args, cwd, env=None, timeout=60, stdin=None):
    """Run the real CLI under a clean environment. Returns (rc, stdout, stderr) as bytes; rc None on timeout."""
    try:
        p = subprocess.run([UCG] + list(args), cwd=cwd, env=env if env is not None else clean_env(), stdin=subprocess.DEVNULL if stdin is None else None,
                           input=stdin, stdout=subprocess.PIPE, stderr=subprocess.PIPE, timeout=timeout)
        return p.returncode, p.stdout, p.stderr
    except subprocess.TimeoutExpired as e:
        return None, e.stdout or b"", e.stderr or b""


# --------------------------------------------------------------------------------------------
# parallel map

_WORKER_SERVER = None
_WORKER_FN = None


def worker_server(**kw):
    """The per-process Server (created lazily)."""
    global _WORKER_SERVER
    if _WORKER_SERVER is None:
        _WORKER_SERVER = Server(**kw)
    return _WORKER_SERVER


def _call(args):
    fn, chunk = args
    return fn(chunk)


def _pool_init():
    # A forked worker must not share the parent's server pipes.
    global _WORKER_SERVER
    _WORKER_SERVER = None
    signal.signal(signal.SIGINT, signal.SIG_IGN)


def pmap(fn, items, chunk=500, jobs=None):
    """Apply fn(chunk_of_items) over fixed chunks in worker processes; yields results in order.
    fn must be a module-level function; it may use worker_server()."""
    jobs = jobs or NPROC
    items = list(items)
    chunks = [items[i:i + chunk] for i in range(0, len(items), chunk)]
    if jobs <= 1 or len(chunks) <= 1:
        for c in chunks:
            yield fn(c)
        return
    ctx = multiprocessing.get_context("fork")
    with ctx.Pool(min(jobs, len(chunks)), initializer=_pool_init) as pool:
        for r in pool.imap(_call, [(fn, c) for c in chunks]):
            yield r


def pmap_gen(fn, gen, chunk=500, jobs=None, inflight=4):
    """Like pmap, for a generator too large to materialise: chunks are cut lazily."""
    jobs = jobs or NPROC

    def chunks():
        cur = []
        for it in gen:
            cur.append(it)
            if len(cur) >= chunk:
                yield (fn, cur)
                cur = []
        if cur:
            yield (fn, cur)

    ctx = multiprocessing.get_context("fork")
    with ctx.Pool(jobs, initializer=_pool_init) as pool:
        for r in pool.imap(_call, chunks()):
            yield r


# --------------------------------------------------------------------------------------------
# known findings

def load_known():
    path = os.path.join(VERIF, "known_findings.json")
    if not os.path.exists(path):
        return []
    with open(path) as f:
        data = json.load(f)
    return data.get("findings", [])


def sig_matches(pattern, sig):
    """Exact match, or a pattern ending in '*' covering one operand position of one call site
    (prefix match). Wider globs are not accepted."""
    if pattern == sig:
        return True
    if pattern.endswith("*") and "*" not in pattern[:-1]:
        return sig.startswith(pattern[:-1])
    return False


# --------------------------------------------------------------------------------------------
# run context

class Ctx:
    def __init__(self, prop, tier, level, seed=0):
        self.prop = prop
        self.tier = tier
        self.level = level
        self.seed = seed
        self.t0 = time.time()
        self.evaluations = 0
        self.nontrivial = 0          # distinct non-trivial cases (the checks count distinct inputs)
        self.hist = collections.Counter()
        self.samples = []
        self.violations = collections.OrderedDict()   # sig -> dict(what, replay, count)
        self.coverage_extra = {}
        self.rule = ""
        self.assumptions = []
        self.exhaustive = True
        self.caps = []
        self.machinery_errors = []
        self.bounds = {}

    # -- accounting -----------------------------------------------------------------------
    def count(self, n=1, nontrivial=0):
        self.evaluations += n
        self.nontrivial += nontrivial

    def outcome(self, cls, n=1):
        self.hist[cls] += n

    def sample(self, s, limit=8):
        if len(self.samples) < limit:
            self.samples.append(s)

    def cap(self, what):
        """A bound/time cap was hit: the run is not exhaustive for its declared space."""
        self.exhaustive = False
        self.caps.append(what)

    def merge(self, part):
        """Merge a worker summary dict: {evals, nontrivial, hist, samples, violations:[(sig, what, replay)]}"""
        self.evaluations += part.get("evals", 0)
        self.nontrivial += part.get("nontrivial", 0)
        for k, v in part.get("hist", {}).items():
            self.hist[k] += v
        for s in part.get("samples", []):
            self.sample(s)
        for sig, what, replay in part.get("violations", []):
            self.violation(sig, what, replay)
        for m in part.get("machinery", []):
            self.machinery_errors.append(m)

    def violation(self, sig, what, replay):
        """sig: the computed signature of the minimal witness (see DESIGN 3.6)."""
        v = self.violations.get(sig)
        if v is None:
            self.violations[sig] = {"what": what, "replay": replay, "count": 1}
        else:
            v["count"] += 1

    def time_left(self, budget):
        return budget - (time.time() - self.t0)

    # -- finishing ------------------------------------------------------------------------
    def finish(self):
        known = [k for k in load_known() if k.get("property") == self.prop]
        unlisted = []
        listed = []
        for sig, v in self.violations.items():
            hit = None
            for k in known:
                if k.get("status") == "known" and sig_matches(k["sig"], sig):
                    hit = k
                    break
            if hit:
                listed.append((sig, v, hit))
            else:
                unlisted.append((sig, v))
        rdir = os.path.join(VERIF, "replays", self.prop)
        printed = 0
        seen_known = set()
        for sig, v, k in listed:
            if k["sig"] in seen_known:
                continue
            seen_known.add(k["sig"])
            print("KNOWN-FINDING: property=%s %s [sig %s, %d case(s) this run]" % (
                self.prop, k.get("what", v["what"]), k["sig"], sum(x[1]["count"] for x in listed if x[2] is k)))
        if unlisted:
            os.makedirs(rdir, exist_ok=True)
        for sig, v in unlisted:
            h = hashlib.sha1(sig.encode()).hexdigest()[:12]
            path = os.path.join(rdir, "%s.json" % h)
            data = {"property": self.prop, "sig": sig, "what": v["what"], "count": v["count"], "case": v["replay"]}
            with open(path, "w") as f:
                json.dump(data, f, indent=1, ensure_ascii=False, default=str)
            if printed < 20:
                print("VIOLATION property=%s replay=%s" % (self.prop, path))
                print("  sig: %s\n  what: %s" % (sig, v["what"]))
                printed += 1
        if len(unlisted) > printed:
            print("... %d further violation signatures written under %s" % (len(unlisted) - printed, rdir))
        self._write_evidence(len(unlisted), len(listed))
        wall = time.time() - self.t0
        print("%s %s: evaluations=%d distinct_nontrivial=%d outcomes=%d violations=%d known=%d exhaustive=%s wall=%.1fs" % (
            self.prop, self.tier, self.evaluations, self.nontrivial, len(self.hist), len(unlisted), len(listed), self.exhaustive, wall))
        if self.machinery_errors:
            for m in self.machinery_errors[:10]:
                print("MACHINERY: %s" % m)
            return EXIT_MACHINERY
        if unlisted:
            return EXIT_VIOLATION
        if self.evaluations > 50 and len(self.hist) <= 1:
            print("MACHINERY: outcome histogram collapsed to one class (vacuous run)")
            return EXIT_MACHINERY
        return EXIT_OK

    def _write_evidence(self, n_viol, n_known):
        cov = {
            "evaluations": int(self.evaluations),
            "distinct_nontrivial": int(self.nontrivial),
            "rule": self.rule,
            "samples": self.samples[:8],
            "exhaustive": bool(self.exhaustive),
            "outcome_histogram": dict(self.hist.most_common(40)),
            "bounds": self.bounds,
            "caps_hit": self.caps,
            "known_findings_reproduced": n_known,
        }
        cov.update(self.coverage_extra)
        ev = {
            "property_id": self.prop,
            "tier": self.tier,
            "seed": int(self.seed),
            "level": self.level,
            "coverage": cov,
            "assumptions": self.assumptions,
            "wall_s": round(time.time() - self.t0, 2),
            "violations": n_viol,
        }
        os.makedirs(os.path.join(VERIF, "evidence"), exist_ok=True)
        path = os.path.join(VERIF, "evidence", "%s.json" % self.prop)
        tmp = path + ".tmp"
        with open(tmp, "w") as f:
            json.dump(ev, f, indent=1, ensure_ascii=False, default=str)
        os.replace(tmp, path)


class Scratch:
    """mkdtemp scratch directory removed on every exit path."""

    def __init__(self, prefix="ucgverif-"):
        self.path = tempfile.mkdtemp(prefix=prefix, dir=os.environ.get("TMPDIR") or None)

    def __enter__(self):
        return self.path

    def __exit__(self, *a):
        shutil.rmtree(self.path, ignore_errors=True)
