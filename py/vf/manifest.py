"""Generates /verif/MANIFEST.json from the table below (./verif.py manifest).


A property appears under `checks` only when py/checks/cNN.py exists AND it is listed in CLAIMED;
everything else goes to `not_applicable` with its reason, so the manifest is valid at all times.
"""
import json
import os

from . import core

# id -> (category, technique, level text, level note, design ref)
CHECKS = {
    "C02": ("exploration",
            "bounded-exhaustive enumeration of operator chains through the real parser against a definitional grouper",
            "Every chain of 1..4 (thorough 1..5) operators over all 18 binary operators, every 1- and 2-pair parenthesisation of chains <= 3 and "
            "every operand form at every position of chains <= 2 is parsed by ucglib::parse::parse and compared with a grouper derived only "
            "from the published table. Exhaustive within those bounds; nothing is sampled.",
            "Trusts the 15-line reference grouper and the AST->JSON normaliser in mc/src/astjson.rs. Chains longer than the bound and prefix "
            "forms (not, fail, TRACE, func) as operands are not covered.",
            "DESIGN.md section 4 C02"),
    "C11": ("exploration",
            "bounded-exhaustive enumeration of token pairs/triples, string bodies and statement layouts through the real tokenizer/parser "
            "against an independent maximal-munch reference lexer",
            "All ordered pairs (x7 separators) and triples (x separator pairs) of the 69-token vocabulary, every string body of length <= 4 over "
            "11 escape-significant characters and every canonical statement form under every single-gap (thorough: two-gap) layout are run "
            "through ucglib::tokenizer::tokenize / parse and compared with vf/reflex.py on type, text, byte offset, line and column, and on "
            "AST identity across layouts. Exhaustive within those bounds.",
            "Trusts the reference lexer (written from grammar.md; three word-boundary habits of the implementation are pinned, see DESIGN "
            "C11). Columns are accepted in bytes or characters. Token sequences longer than 3 are covered only through the 33 canonical statements.",
            "DESIGN.md section 4 C11"),
    "C04": ("exploration",
            "bounded-exhaustive input enumeration through every compiler stage in watched worker processes (panic / abort / hang oracle)",
            "Every token tuple of length <= 3 over the 69-token vocabulary (bare and bound by let), operator x edge-operand grids, cast and range "
            "grids, every format template of length <= 4 over 6 characters, every raw text of length <= 3 over 14 characters in 4 contexts, 16 "
            "nesting constructs at every depth 1..64, every shipped .ucg file and UTF-8 fuzz-corpus entry and every single-token "
            "delete/duplicate/swap/replace mutation of the small ones run through tokenize, parse, AstPrinter, Checker, translate+VM and all 8 "
            "converters, each stage under catch_unwind with an abort- and hang-attributing watchdog. Exhaustive within those bounds.",
            "Harness and CLI are built with overflow-checks on (the profile of the repository's own tests). Arbitrary 4 KiB texts are far beyond "
            "any exhaustive bound and are not claimed; a 20 s per-input watchdog is the only time-based verdict and every hang is re-run alone.",
            "DESIGN.md section 4 C04"),
    "C01": ("exploration",
            "bounded-exhaustive enumeration of programs by construct strata through eval_string against a tree-walking reference interpreter",
            "S1: all 18 binary operators x every ordered pair of 27 leaves (atoms incl. ill-typed and failing ones); S2: each of ~110 construct "
            "templates (operators with short-circuit variants, selectors, select arms/defaults, inline and let-bound functions, copy with self, "
            "modules with parameters/out-expressions, map/filter/reduce over lists/tuples/strings, both format forms, ranges, casts, in/is, "
            "fail, TRACE) x every leaf, as let and as expression statement; S3: every ordered pair and triple of templates nested along one path "
            "(1.3 M programs); S4: statement sequences with closures, shadowing, curried functions, module and format scopes. Each program is "
            "printed with minimal parentheses, run by FileBuilder::eval_string and compared with vf/refsem.py on success/failure, failure class "
            "and every top-level binding (floats bitwise). Exhaustive for these strata; deeper programs are not covered.",
            "Trusts the reference interpreter (written from the reference manual; behaviour the manual leaves open is pinned and marked PIN: in "
            "vf/refsem.py). Regex patterns are restricted to a set on which Python re and Rust regex agree. import/include/out/convert/assert "
            "are owned by C09/C15/C14/C03/C13.",
            "DESIGN.md section 4 C01"),
    "C07": ("exploration",
            "bounded-exhaustive differential enumeration: eval_string (no checker) versus FileBuilder::build (checker + VM) on the C01 strata",
            "Every program of C01 strata S1, S2, S3-pairs (thorough: triples), S4 and 50 documented forms (functional operators over bound and "
            "literal tuples/strings, calls/copies through selectors, selector depth 1..4, computed/quoted selectors, heterogeneous list "
            "concatenation) is evaluated without the checker; each one that succeeds (and on which the reference interpreter, run eagerly "
            "over skipped branches, also succeeds) is written to a file and built with the checker. The build must succeed with equal values.",
            "Programs that evaluate only because an ill-typed branch is never reached (short-circuit, unselected select arm) are left out: "
            "rejecting them is a legitimate static check. mod.pkg (present only in file builds, documented) is ignored when comparing values.",
            "DESIGN.md section 4 C07"),
    "C10": ("exploration",
            "bounded-exhaustive enumeration of statement sequences cut at every boundary (prefix law, differential) plus reference interpreter",
            "All 30 940 sequences of 1..4 statements (thorough 1..5) over a pool of 13 interacting statements (lets, closures, module, format "
            "item, expression statement, shadowing parameter, rebinding) and every C01-S4 scoping program are cut at every statement "
            "boundary and run by eval_string: bindings of a prefix must reappear unchanged in every longer successful prefix, a failing "
            "prefix must stay failing, and every prefix must agree with the reference interpreter. Every word of the manual's reserved list "
            "in 3 binding positions and every pair of 4 binder kinds in 3 placements must be refused.",
            "Trusts the reference interpreter for (ii); (i), (iii), (iv) need no model.",
            "DESIGN.md section 4 C10"),
    "C05": ("exploration",
            "bounded-exhaustive enumeration of programs, literal forms and single/double-gap layouts through the real parser + AstPrinter "
            "(round trip, comment multiset and fixed-point oracles)",
            "Every program of C01 strata S1, S2, S3-pairs, S4; 68 canonical statement forms covering every statement and expression kind with "
            "each of 11 separators (incl. four comment placements, CRLF, indentation) at every gap between tokens (thorough: every pair of "
            "gaps); 35 literal forms; every repository .ucg file. For each text: parse(fmt(s)) equals parse(s) modulo positions and field-name "
            "quoting, the comments read by an independent scanner are unchanged, fmt is idempotent when comments stand on their own lines "
            "between statements; `ucg fmt` and `ucg fmt -w` give the printer's bytes.",
            "Trusts the AST normaliser (mc/src/astjson.rs) and the 30-line comment scanner. Comment texts are compared after trimming. "
            "Three or more simultaneous non-canonical gaps are not covered.",
            "DESIGN.md section 4 C05"),
    "C03": ("exploration",
            "bounded-exhaustive enumeration of value trees through the real converters against independent decoders (json, tomllib, PyYAML "
            "parser + own YAML 1.2 core resolver)",
            "22 scalars (integer and float extremes, non-finite floats) and ~260 strings (format-significant pool + every string of length <= 2 "
            "(thorough 3) over 12 characters) in five positions incl. tuple key, every skeleton of depth <= 2 (3) and width <= 2 (3), every "
            "list/tuple alternation chain to depth 5, mixed and multi-document lists and constraint values, each x {json, yaml, toml, "
            "yamlmulti} through the registry converter and through `convert <fmt> v` in a program. The decoded document must equal the value "
            "(numbers as exact rationals); unrepresentable values must be errors.",
            "Trusts CPython json/tomllib, PyYAML's scanner/parser and the 40-line core-schema resolver in vf/decoders.py. TOML lists the "
            "serializer has no form for may be refused or written correctly, not written wrongly. Strings outside the pools are not covered.",
            "DESIGN.md section 4 C03"),
    "C12": ("exploration",
            "bounded-exhaustive enumeration of document tuples through the real xml converter against expat and a tree computed from the DSL",
            "Every node-shape tree to depth 2 (thorough 3) as root, under a root and between siblings; 32 XML-significant strings as text in 6 "
            "positions x 2 text forms and as attribute values in 3 positions; attribute sets x children forms; name forms; 7 x 7 namespace "
            "forms on parent and child; 84 declaration option combinations; 16 malformed node kinds at 3 depths and 6 malformed documents. "
            "The output must be well-formed for expat and its tree (names, nesting, attributes, namespace bindings in scope, text per gap "
            "between elements) must equal the described one; malformed descriptions must be errors.",
            "Trusts expat and the 60-line mapping from the DSL to a tree (written from converters.md). Where the description has no text "
            "between two elements, whitespace-only indentation is accepted (the converter pretty-prints by design). Namespace declarations "
            "are compared as bindings in scope.",
            "DESIGN.md section 4 C12"),
    "C13": ("model_checking",
            "explicit reference model of `ucg test`; every model trace replayed against the real binary (E3) + explicit-state search over the "
            "real Environment with a differential invariant (E2)",
            "Model: file = sequence of statements of 9 kinds, verdict = builds and all evaluated assertions ok, log = one line per evaluated "
            "assertion, invocation = sequence of files, exit 0 iff all pass. Replayed: every file of 0..4 (thorough 0..5) statements over 6 "
            "kinds alone (1 555 files) plus the statically rejected kinds to length 2; every ordered sequence of 1..3 (1..4) distinct files "
            "of 7 representative files as arguments and every 2-/3-subset through -r; per file the verdict line, the OK / NOT OK line counts "
            "of its own section, its RESULTS line, and the exit status are compared. E2: all 399 (2 800) histories of 1..3 (1..4) builds in "
            "one in-process Environment, last result compared with the same build in the initial state.",
            "The log is only checked for files that build (a file that stops with an evaluation error prints no log by design of main.rs). "
            "A statically detectable malformed assertion may be reported as a build error instead of a failing assertion; both are FAIL.",
            "DESIGN.md section 4 C13"),
    "C14": ("model_checking",
            "explicit directory-state model of `ucg build` with out; every model trace replayed against the real binary (E3)",
            "Model: state = file name -> bytes; build with one out writes stem.ext := bytes of `convert` or leaves the state unchanged and "
            "exits 1; two outs are an error; no out changes nothing. Replayed per converter (all 8): 0/1/2 out statements x 4-11 values "
            "(convertible and not: NULL / non-table / mixed lists for toml, NaN for json, constraint values, non-tuples and malformed tuples "
            "for env/flags/exec/xml) x {empty directory, earlier artifact present}; every sequence of two (thorough three) builds over "
            "{A, B, unconvertible}. After every build the listing and all bytes are compared; expected bytes come from the real convert "
            "expression evaluated in-process.",
            "For two out statements the model accepts both 'nothing written' and 'first artifact written'; the exit status must be 1.",
            "DESIGN.md section 4 C14"),
    "C16": ("model_checking",
            "explicit-state breadth-first search over the real Environment with a differential invariant (E2) + replay of every batch trace "
            "against the real binary (E3)",
            "Project of 8 files (plain, library, importer, built-and-imported, importer of a built file, static type error, runtime failure, "
            "one library under two path spellings). E2: BFS with events build(f); a transition replays the history in a fresh Environment "
            "and applies one event; states are deduplicated on (val_cache keys, shape_cache keys, out_lock, collector); on every transition "
            "the result (success, bound values or error, own artifact bytes) must equal the result in the initial state. Bound: depth 4 "
            "(thorough 6); with the first 13 files the search closed (30 states), with the 19 of the sixth round it does not at depth 4 "
            "(e2_closed / e2_frontier_left in the evidence say what was left). E3: every ordered "
            "sequence of 1..2 and a sixth of the length-3 sequences (thorough: all of length <= 3, and of length 4 over the first 13 files) in one `ucg build` invocation, run twice "
            "in the same directory, plus build -r, compared per file with the alone baseline, and the exit status.",
            "op_cache is left out of the state key: files do not change during a run, so states differing only there have the same futures. "
            "Per-file success in a batch is read from the error lines on stderr.",
            "DESIGN.md section 4 C16"),
    "C18": ("exploration",
            "bounded-exhaustive enumeration of process environments and env-using programs against the real binary (artifact and diagnostic oracle)",
            "Every subset of <= 3 of 6 variable names x every name read through a bare and a quoted selector x strict / --no-strict; every "
            "value of length <= 2 (thorough 3) over 9 shell-significant characters plus a Unicode/long pool on one variable; a 20-variable "
            "environment; 12 programs binding env or naming a field, selector or module parameter env. The environment is passed explicitly "
            "(as under env -i) with a secret planted in an unrelated variable: a set variable must arrive byte for byte in the JSON "
            "artifact, an unset one must fail naming it without disclosing any other value (strict) or yield NULL (--no-strict).",
            "HOME is always set (main.rs creates ~/.ucg there). A function parameter named env is refused since the reserved-word fix; "
            "the property speaks of let, fields and selectors only.",
            "DESIGN.md section 4 C18"),
    "C08": ("exploration",
            "bounded-exhaustive enumeration of strings and field-kind orders through the real env/flags/exec converters, evaluated by dash and bash",
            "Every string of length <= 4 (thorough 5: 66 430 strings) over {' \" \\ $ ` blank LF * a} plus 37 further strings (Unicode, "
            "metacharacters, option-like words, CR, control characters, 1000 characters) in 7 placements: env value, flag value, list-flag "
            "item, exec command, exec argument, exec flag-tuple argument, exec env value; every tuple of 1..4 (5) fields with kinds from "
            "{str, int, float, bool, NULL, list, tuple} in every order for env and flags. The converter output (byte-exact, in-process) is "
            "sourced / eval'd / run with exec replaced by an argv dumper in a subshell of each shell; every scalar must arrive as exactly "
            "one byte-identical word, once, in order; skipped fields must stay undefined; $a is set to a canary.",
            "Shells other than dash and bash are not covered. Under dash the `set -euo pipefail` line of the exec script is reduced to "
            "`set -eu` (dash has no pipefail); the quoting of assignments and command line is what is under test.",
            "DESIGN.md section 4 C08"),
    "C09": ("exploration",
            "bounded-exhaustive enumeration of import graphs, import positions, path spellings and working directories against the real "
            "binary, with a Python resolver/evaluator model",
            "Every digraph on 1..3 files including self-loops (530 graphs; thorough: + all 4 096 digraphs on 4 files without self-loops) in two "
            "import spellings (top-level let, seen by the static resolver; inline (import ...).s, not seen) and up to 3 directory layouts: a "
            "cycle reachable from the entry must give exit 1 with a cycle diagnostic (no signal, no timeout), otherwise exit 0, the model's "
            "value and exactly one TRACE line per reachable file. 29 syntactic positions of an import / include expression x path spellings "
            "x 3 working directories (project, sub-directory, /): same artifact from everywhere. 48 diamonds reaching one file under 2-3 "
            "spellings from 3 working directories: evaluated once.",
            "Projects of 5-8 files are beyond the bound; resolution, caching and cycle logic are per edge and per path and every "
            "edge/path/position/cwd combination occurs within 3-4 files. Imports written inside @{...} of a format template are not "
            "rewritten by the AST walker (they live in a string) and are not among the positions.",
            "DESIGN.md section 4 C09"),
    "C06": ("exploration",
            "exhaustive cross product of a constraint grammar x a value pool x three spellings through FileBuilder::build against a "
            "conformance predicate",
            "88 constraints (4 primitive, 24 tuple and 6 list exemplars to depth 3; closed and half-open int/float ranges over bounds {1, 3}; "
            "alternations of 1..4 arms from {\"a\", \"b\", 1, 8, in 1..3, in 5..6}) x 66 values (every type; sub-, super-, equal, disjoint and "
            "wrong-typed tuples/lists; boundary values lo-1, lo, mid, hi, hi+1 in int and float; values computed by operators, calls and "
            "select; NULL) x {inline, named constraint, let-bound exemplar}: 17 073 files built with checker and VM. Build succeeds iff the "
            "predicate admits the value; the spellings of one constraint must agree. The whole space is run in both tiers.",
            "Trusts the 40-line predicate written from the property text and typechecking.md. NULL against a range or alternation is left "
            "unjudged (property text and manual differ). Recursive constraints are not exercised.",
            "DESIGN.md section 4 C06"),
    "C15": ("exploration",
            "bounded-exhaustive enumeration of documents written by independent Python writers through the real include path, compared "
            "at the Val level with independent decoders",
            "~190 value trees (integer/float extremes, 45 format-significant strings as value and as key, nesting, empties, mixed lists) written "
            "as JSON (compact, indented, ASCII-escaped), YAML (block/flow x plain/single/double quoting) and TOML (inline tables, [sections], "
            "[[arrays of tables]]); text files for str; every byte string of length <= 4 over {00 41 0A FB FF} and text for b64 and "
            "b64urlsafe; unknown include types; every truncation and every single-byte substitution by {, \", :, NUL of the 10 (thorough 30) "
            "longest documents per format, judged by the independent decoder. Each include is one file built by FileBuilder::build; the "
            "bound Val must equal the typed tree (ints stay ints, other numbers floats), malformed input must fail the build.",
            "Trusts CPython json/tomllib/base64, PyYAML's parser and the resolver in vf/decoders.py and the writers in checks/c15.py. YAML "
            "documents with non-string or merge keys, anchors, aliases, tags or several documents are left unjudged (outside the subset the "
            "property names). Tuple key order is not compared.",
            "DESIGN.md section 4 C15"),
    "C17": ("exploration",
            "exhaustive enumeration of single-fault programs (fault kind x nesting x statement index x inserted statements) through "
            "eval_string and build(path) with a span oracle",
            "11 fault kinds (3 syntax variants, unknown name, type mismatch, missing field, missing index, unhandled select, failed cast, fail, "
            "wrong arity) x 6 nesting positions (top level, tuple field, list element, call argument, select arm, function body called from a "
            "later statement) x every statement index of a base program of multi-line statements x 7 variants (base; 1 one-line, 1 "
            "three-line, 3 one-line unrelated statements inserted before and, separately, after). The first line/column of the diagnostic "
            "must lie inside the faulty statement's span, a VIA line inside the calling statement for function-body faults found at "
            "evaluation, and the position must move by exactly the lines inserted before and not at all for lines inserted after.",
            "The generator computes the spans itself. Only lines are compared against the span. A fault the static checker finds inside a "
            "function definition needs no VIA entry. Errors that carry no position by construction (I/O, regex) are not among the kinds.",
            "DESIGN.md section 4 C17"),
    "C19": ("exploration",
            "bounded-exhaustive enumeration of helper calls in built files importing std/*.ucg against plain reference functions and laws",
            "Every list of length 0..3 (thorough 0..4) over {1, \"a\", NULL, [1], {a=1}} for len/reverse (+ involution and length laws)/head/"
            "tail/enumerate/ops, every (start, end) index pair for slice, pairs of lists of length 0..3 for zip, str_join with 3 separators and "
            "with empty-string items; every tuple of 0..3 fields over 3 names x {1, \"s\", NULL} for fields/values/iter/strip_nulls/"
            "has_fields; every string of length 0..3 (0..4) over {a, b, -, e-acute} for len/chars, every index for split_at, every (start, "
            "end) for substr, 4 separators for split_on and the split/join law; digit-led strings for parse_int; maybe over {NULL, 1} x 6 "
            "operations; schema.base_type_of/shaped/any/all over a 13 x 24 shape x value grid x partial. ~8 200 calls, each one let in a file "
            "built with checker and VM.",
            "The property text speaks of lists up to 12 and strings up to 20; the exhaustive bound is 3-4, which contains every boundary the "
            "helpers branch on (empty, one element, first/last index, separator at start/end/adjacent, unequal lengths). slice with indices "
            "beyond the list and parse_int without leading digit are not judged (undocumented).",
            "DESIGN.md section 4 C19"),
    "C20": ("model_checking",
            "explicit session model of the language server; every model trace replayed against `ucg lsp` over stdio, differential oracle "
            "against a fresh server, ucglib's parser and the builder",
            "Model: state = uri -> text of the open documents over a fixed on-disk workspace (a.ucg importing lib.ucg); messages open, change, "
            "close and the five requests. Replayed, one server process per trace with a barrier request after every message: all sequences of "
            "1..2 notifications over 22 messages (2 documents x {open, change} x 5 texts + close), all of length 3 over 14 messages (thorough: "
            "22, plus length 4 over 14), legal and protocol-violating alike, and one 30-message covering tour; afterwards the last "
            "diagnostics of every open document must equal those of a fresh server opened on that text. For each of 17 texts (valid, syntax "
            "and type errors, empty, CRLF, non-ASCII, unterminated string, rich): hover / definition / completion at every token start, "
            "inside every token, at every line end and beyond the text, semanticTokens/full and 4 workspace/symbol queries: every request "
            "answered, every range inside its document; the syntax diagnostic must sit at the parser's position; a text that builds gets none.",
            "Sessions of up to 30 messages are far beyond any exhaustive bound: the tour is declared as a covering tour, not as exhaustive. "
            "Range end characters beyond the line are accepted (clamped by the protocol); start characters are not. Malformed JSON-RPC "
            "parameters are outside the property.",
            "DESIGN.md section 4 C20"),
}

# Additions made after the first version of a check (mostly after a seeded change was missed); appended to the level text.
ADDED = {
    "C02": "Added later: chains in which one operand of a dot is an integer index and another operand is a float literal.",
    "C13": "Added later: -r over nested directories; files sharing an import that cannot be loaded; assertion kinds inside a module instantiated from a function body / a map callback; an opaque identity so that the static checker cannot see through the hidden kinds. One invocation with 0..3, 255, 256, 257, 512 failing inputs; the exit status judged as the property words it (non-zero). Sixth round: the log oracle also covers files whose build stops at run time after some assertions.",
    "C05": "Added later: Literals the printer must re-escape or re-scale (an infinite float, non-ASCII text next to every escape); comments after the last statement; the check refuses to start if a hand-written form does not parse. Several files in one invocation, a flat directory and -r over nested directories as further routes of `ucg fmt`. Commented files in three orders on the several-files / directory / -r routes. Sixth round: two statements x a comment before / after each on its line, at the top level and in a module body, with the fixed-point clause applied to the output (32 texts; one known finding).",
    "C01": "Added later: negative / i64::MIN / negative-float leaves; the S1 / S2 / S3-pair programs once more in non-strict mode. Five templates with backslashes. Callable values compared (168 programs). Sixth round: closures made by one factory in five ways x called in seven ways (35 programs).",
    "C03": "Added later: the artifact file as third observation point (scalars in every position, the format-significant strings as value and key, short chains, mixed / multi-document lists through the real `ucg build` of `out <fmt> v;` into a directory holding a longer earlier artifact; the file is decoded). Values no data format can represent (a function, a module; top level and every container position) must be refused by json / yaml / yamlmulti / toml through converter, `convert` and `ucg build`. Strings ending in line breaks in every position of streams of two and three yamlmulti documents. Sixth round: tuples that hold one field name two or three times (16 values), judged by the first field of a name.",
    "C04": "Added later: 35 flat constructs grown to 4 KiB (also through the real `ucg build` / `ucg fmt` with their default stack); C05's layout family (every canonical statement form with each separator incl. four comment placements at every gap). Token positions inside statements that define or mention a self-instantiating module are not mutated (excluded by the property). 8..128 function / module values compared with each other; seven constraints that mention themselves unguarded x 5 values.",
    "C06": "Added later: each literal value again where the checker has no static shape for it (opaque identity, element of a mixed list, field of a function argument); exemplars that do not mention the values' first field; five more spellings (alias of a named constraint, an alternation split over two named constraints either way, the value first passing another constrained binding under two constraints). A recursive-constraint family (6 declarations x 4 spellings x 14 values); NULL, empty list / tuple for every constraint; list constraints with the non-conforming element first / middle / last. Per constraint one conforming and one non-conforming value through the exit status of the real `ucg build` (alone, after and before a good file). A select result first passing a constrained binding; callable values; NULL alternatives.",
    "C07": "Added later: include / import forms with data and decoy files (differential only); a function grid (43 bodies x 13 arguments, also called at two types), a nested-call grid (same / different parameter names), a producer x consumer grid (13 indirect producers x 6 value types x 24 consumers), a select-arm grid (functions, tuples and lists that are alike but not the same), a callback-name grid; a non-strict pass (--no-strict on both sides) over the documented forms, the grids, S1 and S2. A function-result-use grid, a copy-override grid, a callee-name grid, raw forms over std/ imports next to a same-named directory. A field-selection grid (bare / quoted names, 1..3 fields, four kinds of base), a nested-module grid, closures that leave a function, nine reported forms. Inner closure parameter of the same name with another type; the copy as one arm of a select; five more reported forms. Sixth round: one library reached twice under every pair of 5 spellings and through files in two directories (64 + 27 files); every data-file form is built in an environment of its own.",
    "C08": "Added later: every list-valued flag of 1..3 (thorough 4) items over {str, int, float, bool, NULL, list, tuple} in every order, alone and as a tuple in exec args. A constraint value as one more kind of field. Sixth round: exec args as every sequence of 1..4 (thorough 5) items over a word and three flag tuples.",
    "C09": "Added later: decoy projects main -> B -> C (B outside main's directory) in which the path B uses for C also names a file of another type against main's directory, the project root and the working directory (6 layouts x let/inline x let/inline x import/include). 16 more positions (constraint of a let, format @{} expression, filter / reduce target, bare statement, out expression, escaped spelling); package-style projects reached through two routes; a directory named std next to the built file. Paths that begin with the letters std without naming an embedded library; an include named like an embedded library; constraint range-end positions. A project file with an embedded library's name reached through three relative spellings. Cycle graphs with the import evaluated by a child VM (format expression, function / module body, map callback).",
    "C10": "Added later: constrained let and both constraint-statement forms among the rebinding binders (49 ordered pairs x 3 placements). The rebinding pairs and reserved words in non-strict mode; one name twice in a parameter list. Sixth round: the closure-factory programs of C01 (35), cut at every statement boundary.",
    "C11": "Added later: every vocabulary token at the start / end of the text next to white space or a comment that is not followed by a line break. Sixth round: comments that end in CR LF among the pair and layout separators.",
    "C12": "Added later: every order of the fields of a full element, of ten valid / invalid field sets (3 depths) and of the document's own fields; the XML-significant strings as namespace URI (default, prefixed, on a child). Characters XML 1.0 cannot carry (text, attribute, names, namespace uri); the encoding field (names of encodings, a value with a quote); a prefix re-bound and bound back three levels deep. An empty / blank encoding; unrepresentable characters in default, prefixed and child namespaces. Sixth round: 2 and 3 sibling elements x 5 namespace forms x 4 forms of the children field under 3 parents (4 200 documents); attributes spelled xmlns / xmlns:p beside an ns field (well-formedness only).",
    "C14": "Added later: five file-name stems for the artifact-name clause; 0 / 1 / 2 out statements with the file named on the command line in five other ways (./x, sub/../x, ../x from a sub-directory, absolute, .//x); recursive listing. Two inputs in one invocation (8 converters x {convertible, unconvertible}^2). Sixth round: 15 values whose last item / field / document / node is the unconvertible one.",
    "C15": "Added later: the same file included twice in one build (4 documents x every ordered pair of 7 include types x 3 layouts, triples over 4 types); integers beyond i64 (judged for json; beyond the decoders' agreement for yaml / toml and left unjudged there); substitution bytes 0xFF / 0x80 and non-ASCII documents in the corrupted pool. Floats that need a correctly rounding reader; programs that use the included value (select, index, add, compare, map); a quoted `<<` key holding no mapping. Byte order marks for b64 / b64urlsafe / str. Sixth round: every mapping over the keys a, b whose values are a number, such a mapping, or a list holding one, two levels deep (104 documents).",
    "C16": "Added later: a file that fails at run time after importing a file with its own out, and one that fails after its own out (10 files). A checker-only failure, a file reaching it through an inline import, a file handing the shared library to a typed parameter (13 files). Sixth round: a file the checker refuses in a statement that is not a let and a let-importer of it, xml and yamlmulti conversions that fail late and that succeed (19 files; the search no longer closes at depth 4, the evidence says what is left on the frontier); every sequence of <= 2 files once more with each file named ./f.",
    "C17": "Added later: 11 ways of producing the offending value (name, calls, field, index, select, copied field, format, concatenation, reduce) x 13 consumers that fault on it (operands of + and &&, cast, not, call / copy of a non-function / non-tuple, range end, select, map target, wrongly typed call argument and module parameter); thorough: every nesting position once more with the fault one construct deeper (9 expression-level positions). Faults inside functions called back by map / filter / reduce over lists, tuples and strings; three format-expression (@{}) positions; module results and a module out-expression as producers / positions. What the real `ucg build` prints for a sample; unterminated strings; values that do not fit a named constraint / let-bound exemplar. Callbacks defined earlier as producers; statically found faults inside a file imported by a let (1-2 imports deep); module out constraints.",
    "C18": "Added later: a set and an unset name read from 12 further places (function / module body, callbacks, tuple field, select arm, format argument, imported files incl. functions / modules defined there and a file imported by an imported file) x bare/quoted x strict/--no-strict; every other binding construct tried with `env`. 20 places in all (tuple / string callbacks, nested functions, a module instantiated in a callback); two reads in one file in every order; a variable whose value is not UTF-8 beside the ones read. The recursive directory walk (depth 0..2); env copied / handed on / stored after some fields were read. The smallest environments (HOME and at most one short variable beside a short secret).",
    "C19": "Added later: parse_int over every digit-led string of length <= 3 over {1, 0, 9, a, -, blank, three non-ASCII decimal digits, e-acute}. List shapes with the non-conforming element at every position; module-style helpers inside a tuple copy using self; parse_int with nothing to parse; the partial flag inside lists. Long digit runs for parse_int; helpers on tuples that come out of a copy; 15 s watchdog per file and a hang cap. Sixth round: 15 characters of every UTF-8 width and low-byte class, alone, doubled and between ASCII letters, through every string helper.",
    "C20": "Added later: 12 import triangles with permuted names on disk; a decoy first content change in didChange; every document of <= 3 tokens over a 10-token (thorough 14) vocabulary, bare and after a line of definitions, swept with hover / definition / completion at every position and semanticTokens. Positions at 2^32-1, a string spanning lines, a field chain through an import, a large document on disk, re-sent didOpen after didClose, unsaved siblings; in-session sweeps after every message of the <= 2-message sessions. Eight triangles over sub-directories with ../ imports. A 30-deep list and a 10-deep mixed nesting as document texts. Sixth round: a document that is not on disk opened and closed before, after and around a document that imports it; the file of an open document deleted on disk before the document is closed.",
}

CLAIMED = ["C01", "C02", "C03", "C04", "C05", "C06", "C07", "C08", "C09", "C10", "C11", "C12", "C13", "C14", "C15", "C16", "C17", "C18", "C19", "C20"]

NOT_YET = "check not built yet in this round; design in DESIGN.md section 4 (bounded-exhaustive enumeration applies)"


def generate():
    props = []
    with open(os.path.join(core.VERIF, "properties.jsonl")) as f:
        for line in f:
            line = line.strip()
            if line:
                props.append(json.loads(line)["id"])
    checks = []
    na = []
    for pid in props:
        if pid in CLAIMED and pid in CHECKS and os.path.exists(os.path.join(core.VERIF, "py", "checks", pid.lower() + ".py")):
            cat, tech, text, note, ref = CHECKS[pid]
            checks.append({
                "property_id": pid,
                "quick_cmd": "./verif.py check %s --tier quick" % pid,
                "thorough_cmd": "./verif.py check %s --tier thorough" % pid,
                "evidence_file": "evidence/%s.json" % pid,
                "replay_cmd_template": "./verif.py replay {path}",
                "engine": "ucgmc+py",
                "level_claimed": {"category": cat, "text": text + ((" " + ADDED[pid]) if pid in ADDED else ""), "design_ref": ref},
                "level_note": note,
                "technique": tech,
            })
        else:
            na.append({"property_id": pid, "reason": NA_REASONS.get(pid, NOT_YET)})
    man = {
        "version": 1,
        "setup_cmd": "./verif.py setup",
        "hooks": {
            "guard": "ucg_verif",
            "enable": "none needed: every entry point and state the engines use is pub in ucglib or reachable through the ucg binary; "
                      "checks build /repo's working tree through /verif/mc (cargo build --release --offline)",
            "baseline_off_cmd": "cd /repo && cargo test --workspace --no-fail-fast --offline",
            "source_commits": [],
            "add_only": True,
        },
        "engines": [
            {"name": "ucgmc", "path": "mc/", "serves_properties": [c["property_id"] for c in checks],
             "kind_free_text": "Rust JSON-lines batch server linking ucglib from /repo's working tree (tokenize, parse, fmt, check, eval, build, "
                               "convert, shared/fresh/named Environments) + the real ucg CLI compiled from /repo/src/main.rs in the same cargo build"},
            {"name": "py", "path": "py/", "serves_properties": [c["property_id"] for c in checks],
             "kind_free_text": "Python enumerators, reference models, independent decoders, explicit-state explorers and trace replayers; "
                               "verif.py is the single entry point"},
        ],
        "checks": checks,
        "not_applicable": na,
        "notes": "Technique family: model checking in the sense of bounded-exhaustive exploration of the real code against executable reference "
                 "models (no sampling). Known findings: known_findings.json. Seeded breaking changes: seeded/.",
    }
    with open(os.path.join(core.VERIF, "MANIFEST.json"), "w") as f:
        json.dump(man, f, indent=1)
        f.write("\n")
    return man


NA_REASONS = {}
