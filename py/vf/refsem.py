"""Reference semantics of ucg: a mini-AST, its printer to source text (minimal parentheses by
the published table) and a tree-walking interpreter written from
docsite/site/content/reference/*.md. Where the manual is silent the current behaviour is
*pinned*; every pin is marked `PIN:` here and listed in PINS.md.

Values:  ("i", int) ("f", float) ("s", str) ("b", bool) ("n",) ("l", [v]) ("t", [(k, v)])
         ("F", params, body, env) ("M", params_tuple_fields, out_expr, stmts)
Expressions (tuples):
  ("int", n) ("float", x) ("str", s) ("bool", b) ("null",) ("sym", name)
  ("list", [e]) ("tuple", [(name, e)])
  ("bin", op, l, r)   op in the 18 operator spellings
  ("not", e) ("group", e)
  ("select", val, default_or_None, [(name, e)])
  ("func", [param], body)
  ("call", callee, [args])          callee: ("sym", n) or a ("bin", ".", ..) chain ending in a name
  ("copy", base, [(name, e)])       base like callee
  ("module", [(param, default_e)], out_or_None, [stmt])
  ("map", f, target) ("filter", f, target) ("reduce", f, acc, target)
  ("format", template, [args])      @-placeholders
  ("formatx", [part], e)            part: str | expression (rendered as @{...})
  ("range", start, step_or_None, end)
  ("cast", "int"|"float"|"str"|"bool", e)
  ("fail", e) ("trace", e)
Statements: ("let", name, e) ("expr", e)
"""
import math
import re

I64_MAX = 2 ** 63 - 1
I64_MIN = -2 ** 63

PREC = {"==": 1, "!=": 1, ">=": 1, "<=": 1, "<": 1, ">": 1, "~": 1, "!~": 1, "in": 2, "is": 2, "+": 3, "-": 3,
        "*": 4, "/": 4, "%%": 4, "&&": 5, "||": 5, ".": 6}

NULL = ("n",)


class DeadCodeFails(Exception):
    pass


class Fail(Exception):
    """A build failure with a coarse class."""

    def __init__(self, cls, msg=""):
        Exception.__init__(self, "%s: %s" % (cls, msg))
        self.cls = cls


# ---------------------------------------------------------------------------------------------
# printing

def _str_lit(s):
    out = ['"']
    for c in s:
        if c == '"':
            out.append('\\"')
        elif c == "\\":
            out.append("\\\\")
        elif c == "\n":
            out.append("\\n")
        elif c == "\t":
            out.append("\\t")
        elif c == "\r":
            out.append("\\r")
        else:
            out.append(c)
    out.append('"')
    return "".join(out)


def _float_lit(x):
    # floats need a digit after the point; no exponent syntax; negative numbers are not literals
    if x != x or x in (float("inf"), float("-inf")):
        raise ValueError("not a literal float")
    neg = x < 0 or (x == 0 and math.copysign(1, x) < 0)
    a = abs(x)
    s = repr(a)
    if "e" in s or "E" in s:
        from decimal import Decimal
        s = format(Decimal(a), "f")
    if "." not in s:
        s += ".0"
    return "(0.0 - %s)" % s if neg else s


def _int_lit(n):
    if n >= 0:
        return str(n)
    if n == I64_MIN:
        return "(0 - 9223372036854775807 - 1)"
    return "(0 - %d)" % -n


PREFIX = ("not", "fail", "trace", "func", "formatx", "select", "module", "format", "range")


def _is_simple(e):
    return e[0] in ("int", "float", "str", "bool", "null", "sym", "list", "tuple", "group") and not (
        e[0] in ("int", "float") and e[1] < 0)


def pr(e):
    k = e[0]
    if k == "int":
        return _int_lit(e[1])
    if k == "float":
        return _float_lit(e[1])
    if k == "str":
        return _str_lit(e[1])
    if k == "bool":
        return "true" if e[1] else "false"
    if k == "null":
        return "NULL"
    if k == "sym":
        return e[1]
    if k == "list":
        return "[" + ", ".join(pr(x) for x in e[1]) + "]"
    if k == "tuple":
        return "{" + ", ".join("%s = %s" % (_field(n), pr(x)) for n, x in e[1]) + "}"
    if k == "group":
        return "(" + pr(e[1]) + ")"
    if k == "bin":
        op, l, r = e[1], e[2], e[3]
        p = PREC[op]
        ls = pr(l)
        if (l[0] == "bin" and PREC[l[1]] < p) or l[0] in PREFIX:
            ls = "(" + ls + ")"
        rs = pr(r)
        if (r[0] == "bin" and PREC[r[1]] <= p) or r[0] in PREFIX:
            rs = "(" + rs + ")"
        if op == ".":
            # `1 . 2` is lexically a float; an int on the left of a dot is grouped
            if l[0] == "int" and not ls.startswith("("):
                ls = "(" + ls + ")"
            # `a.0.1` is lexically `a . 0.1`: an index after an index needs the first one grouped
            if r[0] == "int" and l[0] == "bin" and l[1] == "." and l[3][0] == "int":
                ls = "(" + ls + ")"
            if r[0] in ("sym", "str") or (r[0] == "int" and r[1] >= 0):
                return "%s.%s" % (ls, rs)
            if r[0] in ("call", "copy"):
                return "%s.%s" % (ls, rs)
            if not rs.startswith("("):
                rs = "(" + rs + ")"
            return "%s.%s" % (ls, rs)
        return "%s %s %s" % (ls, op, rs)
    if k == "not":
        return "not " + _operand(e[1])
    if k == "select":
        d = "" if e[2] is None else ", " + pr(e[2])
        return "select (%s%s) => {%s}" % (pr(e[1]), d, ", ".join("%s = %s" % (_field(n), pr(x)) for n, x in e[3]))
    if k == "func":
        return "func (%s) => %s" % (", ".join(e[1]), pr(e[2]))
    if k == "call":
        return "%s(%s)" % (pr(e[1]), ", ".join(pr(a) for a in e[2]))
    if k == "copy":
        return "%s{%s}" % (pr(e[1]), ", ".join("%s = %s" % (_field(n), pr(x)) for n, x in e[2]))
    if k == "module":
        params = "{" + ", ".join("%s = %s" % (_field(n), pr(x)) for n, x in e[1]) + "}"
        out = "" if e[2] is None else "(" + pr(e[2]) + ") "
        body = " ".join(pr_stmt(s) for s in e[3])
        return "module %s => %s{ %s }" % (params, out, body)
    if k in ("map", "filter"):
        return "%s(%s, %s)" % (k, pr(e[1]), pr(e[2]))
    if k == "reduce":
        return "reduce(%s, %s, %s)" % (pr(e[1]), pr(e[2]), pr(e[3]))
    if k == "format":
        return "%s %% (%s)" % (_str_lit(e[1]), ", ".join(pr(a) for a in e[2]))
    if k == "formatx":
        t = []
        for part in e[1]:
            if isinstance(part, str):
                t.append(_str_lit(part.replace("\\", "\\\\").replace("@", "\\@"))[1:-1])
            else:
                t.append("@{" + pr(part).replace("\\", "\\\\").replace('"', '\\"') + "}")
        # The single-argument form takes an *unparenthesised* expression (a parenthesis after %
        # selects the list form) and, being a prefix form, extends as far right as possible.
        arg = e[2]
        while arg[0] == "group":
            arg = arg[1]
        a = pr(arg)
        if a.startswith("(") or arg[0] in PREFIX:
            raise ValueError("argument of the single-argument format form would need parentheses")
        return '"%s" %% %s' % ("".join(t), a)
    if k == "range":
        def b(x):
            s = pr(x)
            if _is_simple(x) or (x[0] in ("int", "float") and s.startswith("(")):
                return s        # simple, or a negative literal which prints fully parenthesised
            return "(" + s + ")"
        if e[2] is None:
            return "%s:%s" % (b(e[1]), b(e[3]))
        return "%s:%s:%s" % (b(e[1]), b(e[2]), b(e[3]))
    if k == "cast":
        return "%s(%s)" % (e[1], pr(e[2]))
    if k == "fail":
        return "fail " + _operand(e[1])
    if k == "trace":
        return "TRACE " + _operand(e[1])
    raise ValueError("cannot print %r" % (e,))


def _operand(e):
    s = pr(e)
    if e[0] == "bin" or e[0] in PREFIX:
        return "(" + s + ")"
    return s


_BARE = re.compile(r"[a-zA-Z][a-zA-Z0-9_-]*")


def _field(n):
    # fullmatch: `$` would also match before a trailing newline (a false alarm of the first C03 run)
    if _BARE.fullmatch(n) and not n.startswith(("NULL", "true", "false")):
        return n
    return _str_lit(n)


def pr_stmt(s):
    if s[0] == "let":
        return "let %s = %s;" % (s[1], pr(s[2]))
    if s[0] == "expr":
        return pr(s[1]) + ";"
    raise ValueError(s)


def pr_prog(stmts):
    return "\n".join(pr_stmt(s) for s in stmts)


# ---------------------------------------------------------------------------------------------
# values

def type_name(v):
    return {"i": "Int", "f": "Float", "s": "String", "b": "Bool", "n": "NULL", "l": "List", "t": "Tuple", "F": "Func", "M": "Func"}[v[0]]


def typ(v):
    return {"i": "int", "f": "float", "s": "str", "b": "bool", "n": "null", "l": "list", "t": "tuple", "F": "func", "M": "module"}[v[0]]


def type_desc(v):
    """structural type of a value: scalars by name, lists by the set of their element types, tuples by field"""
    if v[0] == "l":
        return ("l", frozenset(type_desc(x) for x in v[1]))
    if v[0] == "t":
        return ("t", tuple((k, type_desc(x)) for k, x in v[1]))
    return v[0]


def deep_equal(a, b, ordered_tuples=True):
    """Manual: == performs deep comparison; tuples are ordered sets and must have their fields in
    the same order. Nested values of different types are simply unequal."""
    if a[0] != b[0]:
        return False
    k = a[0]
    if k in ("i", "s", "b"):
        return a[1] == b[1]
    if k == "f":
        return a[1] == b[1]          # IEEE: NaN != NaN
    if k == "n":
        return True
    if k == "l":
        return len(a[1]) == len(b[1]) and all(deep_equal(x, y, ordered_tuples) for x, y in zip(a[1], b[1]))
    if k == "t":
        if len(a[1]) != len(b[1]):
            return False
        if ordered_tuples:
            return all(ka == kb and deep_equal(va, vb, ordered_tuples) for (ka, va), (kb, vb) in zip(a[1], b[1]))
        for ka, va in a[1]:
            found = False
            for kb, vb in b[1]:
                if ka == kb:
                    found = True
                    if not deep_equal(va, vb, ordered_tuples):
                        return False
            if not found:
                return False
        return True
    return a is b


def render(v):
    """PIN: rendering of values inside format strings (manual: 'default string representation')."""
    k = v[0]
    if k == "i":
        return str(v[1])
    if k == "f":
        return rust_float_display(v[1])
    if k == "s":
        return v[1]
    if k == "b":
        return "true" if v[1] else "false"
    if k == "n":
        return "NULL"
    if k == "l":
        return "[" + "".join(render(x) + "," for x in v[1]) + "]"
    if k == "t":
        return "{" + "".join("%s = %s," % (n, render(x)) for n, x in v[1]) + "}"
    if k == "F":
        return "<Func>"
    if k == "M":
        return "<Module>"
    raise ValueError(v)


def rust_float_display(x):
    if x != x:
        return "NaN"
    if x == float("inf"):
        return "inf"
    if x == float("-inf"):
        return "-inf"
    from decimal import Decimal
    s = repr(x)
    if "e" in s or "E" in s:
        d = Decimal(s)
        s = format(d, "f")
    if s.endswith(".0"):
        s = s[:-2]
    return s


def to_plain(v):
    """Lowering to what eval_string returns (ir::Val): functions and modules become NULL."""
    k = v[0]
    if k in ("F", "M"):
        return NULL
    if k == "l":
        return ("l", [to_plain(x) for x in v[1]])
    if k == "t":
        return ("t", [(n, to_plain(x)) for n, x in v[1]])
    return v


# ---------------------------------------------------------------------------------------------
# interpreter

RESERVED = {"let", "module", "func", "out", "assert", "self", "import", "include", "as", "map", "filter", "convert", "fail", "NULL",
            "in", "is", "TRACE"}

# Python's re and Rust's regex agree on these
SAFE_PATTERNS = {"a", "^a", "b$", "a.c", "[0-9]+", "a|b", "", "^$"}


def merge_field(fields, name, val):
    """PIN: a field that already exists is overwritten in place and must keep its type unless
    either side is NULL (manual states the rule for copy; the code applies it to literals too)."""
    for i, (n, old) in enumerate(fields):
        if n == name:
            if type_name(old) != type_name(val) and "NULL" not in (type_name(old), type_name(val)):
                raise Fail("type", "field %s changes type" % name)
            fields[i] = (n, val)
            return
    fields.append((name, val))


class Interp:
    def __init__(self, strict=True, ordered_tuple_eq=True, and_or_check_right=True, trace=None, eager=False):
        # eager: also evaluate the branches the semantics skip (right side of a short-circuited
        # && / ||, unselected select arms and defaults) and raise DeadCodeFails if one of them
        # fails other than by a user `fail`. Used by C07 to leave out programs that only evaluate
        # because an ill-typed branch is never reached.
        self.eager = eager
        self.strict = strict
        self.ordered_tuple_eq = ordered_tuple_eq
        self.and_or_check_right = and_or_check_right
        self.trace = trace if trace is not None else []
        self.steps = 0
        self.hetero_concat = False      # set when two lists with different element types were concatenated
        self.null_selections = 0        # failed selections that non-strict mode turned into NULL

    # env: dict name -> value ; self_stack: list
    def run(self, stmts):
        """-> ("ok", sorted bindings as plain tuple value) | ("fail", cls)"""
        env = {}
        try:
            self.exec_stmts(stmts, env, [])
        except Fail as f:
            return ("fail", f.cls)
        except DeadCodeFails as f:
            return ("dead-code-fails", str(f))
        # PIN: the result tuple is ordered by name
        # PIN: a top-level binding named `mod` (a keyword of the grammar) is not part of the result
        return ("ok", ("t", [(n, to_plain(env[n])) for n in sorted(env) if n != "mod"]))

    def exec_stmts(self, stmts, env, selfs):
        for s in stmts:
            if s[0] == "let":
                v = self.ev(s[2], env, selfs)
                if s[1] in RESERVED:
                    raise Fail("reserved", s[1])
                if s[1] in env:
                    raise Fail("rebind", s[1])
                env[s[1]] = v
            elif s[0] == "expr":
                self.ev(s[1], env, selfs)
            else:
                raise ValueError(s)

    def lookup(self, name, env, selfs):
        if name == "self":
            if selfs:
                return selfs[-1]
            raise Fail("name", "self")
        if name in env:
            return env[name]
        if name == "env":
            return ("t", [])
        raise Fail("name", name)

    def ev(self, e, env, selfs):
        self.steps += 1
        if self.steps > 200000:
            raise Fail("budget")
        k = e[0]
        if k == "int":
            return ("i", e[1])
        if k == "float":
            return ("f", e[1])
        if k == "str":
            return ("s", e[1])
        if k == "bool":
            return ("b", e[1])
        if k == "null":
            return NULL
        if k == "sym":
            return self.lookup(e[1], env, selfs)
        if k == "list":
            return ("l", [self.ev(x, env, selfs) for x in e[1]])
        if k == "tuple":
            flds = []
            for n, x in e[1]:
                merge_field(flds, n, self.ev(x, env, selfs))
            return ("t", flds)
        if k == "group":
            return self.ev(e[1], env, selfs)
        if k == "bin":
            return self.ev_bin(e, env, selfs)
        if k == "not":
            v = self.ev(e[1], env, selfs)
            if v[0] != "b":
                raise Fail("type", "not")
            return ("b", not v[1])
        if k == "select":
            return self.ev_select(e, env, selfs)
        if k == "func":
            # closes over the environment up to the point where it is declared
            return ("F", list(e[1]), e[2], dict(env))
        if k == "call":
            return self.ev_call(e, env, selfs)
        if k == "copy":
            return self.ev_copy(e, env, selfs)
        if k == "module":
            flds = []
            for n, x in e[1]:
                merge_field(flds, n, self.ev(x, env, selfs))
            return ("M", flds, e[2], e[3])
        if k in ("map", "filter", "reduce"):
            return self.ev_funcop(e, env, selfs)
        if k == "format":
            return self.ev_format(e, env, selfs)
        if k == "formatx":
            return self.ev_formatx(e, env, selfs)
        if k == "range":
            return self.ev_range(e, env, selfs)
        if k == "cast":
            return self.ev_cast(e[1], self.ev(e[2], env, selfs))
        if k == "fail":
            v = self.ev(e[1], env, selfs)
            if v[0] != "s":
                raise Fail("type", "fail message")
            raise Fail("user", v[1])
        if k == "trace":
            v = self.ev(e[1], env, selfs)
            self.trace.append(v)
            return v
        raise ValueError("cannot evaluate %r" % (e,))

    def dead(self, e, env, selfs, want_bool=False):
        try:
            v = self.ev(e, env, selfs)
        except Fail as f:
            if f.cls == "user":
                if e[0] == "fail":
                    return
                # a `fail` somewhere inside the skipped expression stops its evaluation before the
                # types of what surrounds it are seen (true || [1, fail "x"]): evaluation cannot
                # tell whether the skipped expression is well typed
                raise DeadCodeFails("undetermined")
            raise DeadCodeFails(f.cls)
        if want_bool and v[0] != "b":
            raise DeadCodeFails("type")

    # -- operators ------------------------------------------------------------------------
    def ev_bin(self, e, env, selfs):
        op, l, r = e[1], e[2], e[3]
        if op == "&&" or op == "||":
            a = self.ev(l, env, selfs)
            if a[0] != "b":
                raise Fail("type", "bool operand")
            if (op == "&&" and not a[1]) or (op == "||" and a[1]):
                if self.eager:
                    self.dead(r, env, selfs, want_bool=True)
                return a
            b = self.ev(r, env, selfs)
            # manual: "they require the expressions on each side to be boolean"
            if self.and_or_check_right and b[0] != "b":
                raise Fail("type", "bool operand")
            return b
        if op == ".":
            return self.ev_dot(l, r, env, selfs)
        if op == "in":
            container = self.ev(r, env, selfs)
            if l[0] == "sym":
                # a bare symbol on the left names a field when the right side is a tuple
                if container[0] == "t":
                    needle = ("s", l[1])
                else:
                    needle = self.lookup(l[1], env, selfs)
            else:
                needle = self.ev(l, env, selfs)
            return self.op_in(needle, container)
        # PIN: operands of the remaining operators are evaluated right to left (only observable
        # through which of two failing operands is reported, and TRACE order)
        b = self.ev(r, env, selfs)
        a = self.ev(l, env, selfs)
        if op == "is":
            if b[0] == "n":
                return ("b", False)     # PIN: `x is NULL` is false, not an error
            if b[0] != "s":
                raise Fail("type", "is")
            return ("b", typ(a) == b[1])
        if op in ("==", "!="):
            if type_name(a) != type_name(b) and "NULL" not in (type_name(a), type_name(b)):
                raise Fail("type", "== operands")
            eq = deep_equal(a, b, self.ordered_tuple_eq)
            return ("b", eq if op == "==" else not eq)
        if op in ("<", ">", "<=", ">="):
            if not ((a[0] == "i" and b[0] == "i") or (a[0] == "f" and b[0] == "f")):
                raise Fail("type", "comparison")
            x, y = a[1], b[1]
            return ("b", {"<": x < y, ">": x > y, "<=": x <= y, ">=": x >= y}[op])
        if op in ("~", "!~"):
            if a[0] != "s" or b[0] != "s":
                raise Fail("type", "regex")
            if b[1] not in SAFE_PATTERNS:
                raise ValueError("pattern outside the supported set")
            m = re.search(b[1], a[1]) is not None
            return ("b", m if op == "~" else not m)
        return self.arith(op, a, b)

    def arith(self, op, a, b):
        if a[0] == "i" and b[0] == "i":
            x, y = a[1], b[1]
            if op == "+":
                z = x + y
            elif op == "-":
                z = x - y
            elif op == "*":
                z = x * y
            elif op in ("/", "%%"):
                if y == 0:
                    raise Fail("arith", "zero divisor")
                q = abs(x) // abs(y)
                if (x < 0) != (y < 0):
                    q = -q
                z = q if op == "/" else x - q * y
            if not (I64_MIN <= z <= I64_MAX):
                raise Fail("arith", "overflow")
            return ("i", z)
        if a[0] == "f" and b[0] == "f":
            x, y = a[1], b[1]
            try:
                if op == "+":
                    z = x + y
                elif op == "-":
                    z = x - y
                elif op == "*":
                    z = x * y
                elif op == "/":
                    if y == 0.0:
                        if x == 0.0 or x != x:
                            z = float("nan")
                        else:
                            z = math.copysign(float("inf"), x) * math.copysign(1.0, y)
                    else:
                        z = x / y
                else:
                    if y == 0.0 or x in (float("inf"), float("-inf")):
                        z = float("nan")
                    else:
                        z = math.fmod(x, y)
            except OverflowError:
                z = float("inf")
            return ("f", z)
        if op == "+" and a[0] == "s" and b[0] == "s":
            return ("s", a[1] + b[1])
        if op == "+" and a[0] == "l" and b[0] == "l":
            if a[1] and b[1] and {type_desc(x) for x in a[1]} != {type_desc(x) for x in b[1]}:
                self.hetero_concat = True
            return ("l", a[1] + b[1])
        raise Fail("type", "operands of %s" % op)

    def op_in(self, needle, container):
        if container[0] == "t":
            if needle[0] != "s":
                raise Fail("type", "in tuple needs a name")
            return ("b", any(n == needle[1] for n, _ in container[1]))
        if container[0] == "l":
            # deep equal on elements, tuple order as for ==
            return ("b", any(deep_equal(x, needle, self.ordered_tuple_eq) for x in container[1]))
        if container[0] == "s":
            if needle[0] != "s":
                return ("b", False)       # PIN
            return ("b", needle[1] in container[1])
        raise Fail("type", "in")

    def index(self, target, idx):
        if idx[0] == "i" and target[0] == "l":
            if 0 <= idx[1] < len(target[1]):
                return target[1][idx[1]]
        elif idx[0] == "s" and target[0] == "t":
            for n, v in target[1]:
                if n == idx[1]:
                    return v
        if not self.strict:
            self.null_selections += 1
            return NULL
        raise Fail("index", "no such field or index")

    def ev_dot(self, l, r, env, selfs):
        if r[0] == "call":
            # t.f(args): arguments first, then the target, then the field
            args = [self.ev(a, env, selfs) for a in r[2]]
            target = self.ev(l, env, selfs)
            f = self.index(target, self.selector_value(r[1]))
            return self.apply(f, args, env_check_count=True)
        if r[0] == "copy":
            target = self.ev(l, env, selfs)
            base = self.index(target, self.selector_value(r[1]))
            return self.do_copy(base, r[2], env, selfs)
        target = self.ev(l, env, selfs)
        if r[0] == "sym":
            idx = ("s", r[1])
        else:
            idx = self.ev(r, env, selfs)
        return self.index(target, idx)

    @staticmethod
    def selector_value(e):
        if e[0] in ("sym", "str"):
            return ("s", e[1])
        if e[0] == "int":
            return ("i", e[1])
        raise ValueError("bad selector %r" % (e,))

    # -- select ---------------------------------------------------------------------------
    def ev_select(self, e, env, selfs):
        v = self.ev(e[1], env, selfs)
        chosen = None
        for name, arm in e[3]:
            if chosen is None and ((v[0] == "s" and v[1] == name) or (v[0] == "b" and name == ("true" if v[1] else "false"))):
                chosen = arm
            elif self.eager:
                self.dead(arm, env, selfs)
        if chosen is not None:
            if self.eager and e[2] is not None:
                self.dead(e[2], env, selfs)
            return self.ev(chosen, env, selfs)
        if e[2] is not None:
            return self.ev(e[2], env, selfs)
        raise Fail("select", "unhandled")

    # -- functions ------------------------------------------------------------------------
    def apply(self, f, args, env_check_count=True):
        if f[0] != "F":
            raise Fail("type", "not a function")
        params, body, closure = f[1], f[2], f[3]
        if len(args) != len(params):
            raise Fail("arity", "%d vs %d" % (len(args), len(params)))
        new = dict(closure)
        # A repeated parameter name is refused by the parser (since a9ca53d; C10 checks that); generators
        # do not repeat names, so the binding order below is not observable.
        for p, a in reversed(list(zip(params, args))):
            if p in RESERVED:
                raise Fail("reserved", p)
            new[p] = a
        return self.ev(body, new, [])

    def ev_call(self, e, env, selfs):
        callee = e[1]
        if callee[0] == "bin" and callee[1] == ".":
            # a.b.f(x) is a dot expression whose last element is a call
            return self.ev_dot(callee[2], ("call", callee[3], e[2]), env, selfs)
        args = [self.ev(a, env, selfs) for a in e[2]]
        f = self.ev(callee, env, selfs)
        return self.apply(f, args)

    # -- copy / modules -------------------------------------------------------------------
    def ev_copy(self, e, env, selfs):
        base_e = e[1]
        if base_e[0] == "bin" and base_e[1] == ".":
            return self.ev_dot(base_e[2], ("copy", base_e[3], e[2]), env, selfs)
        base = self.ev(base_e, env, selfs)
        return self.do_copy(base, e[2], env, selfs)

    def do_copy(self, base, fields, env, selfs):
        # `self` refers to the base while the override fields are evaluated
        selfs2 = selfs + [base]
        over = []
        for n, x in fields:
            merge_field(over, n, self.ev(x, env, selfs2))
        if base[0] == "t":
            flds = list(base[1])
            for n, v in over:
                merge_field(flds, n, v)
            return ("t", flds)
        if base[0] == "M":
            params, out_e, stmts = base[1], base[2], base[3]
            flds = list(params)
            for n, v in over:
                merge_field(flds, n, v)      # PIN: undeclared override fields are accepted
            merge_field(flds, "this", base)
            menv = {"mod": ("t", flds)}      # a module body sees only its parameters
            self.exec_stmts(stmts, menv, selfs2)
            if out_e is not None:
                return self.ev(out_e, menv, selfs2)
            # PIN: the implicit result lists the module's bindings ordered by name
            return ("t", [(n, menv[n]) for n in sorted(menv) if n != "mod"])
        raise Fail("type", "copy of non tuple")

    # -- functional operators -------------------------------------------------------------
    def ev_funcop(self, e, env, selfs):
        k = e[0]
        f = self.ev(e[1], env, selfs)
        if k == "reduce":
            acc = self.ev(e[2], env, selfs)
            target = self.ev(e[3], env, selfs)
        else:
            target = self.ev(e[2], env, selfs)
        if f[0] != "F":
            raise Fail("type", "not a function")
        tk = target[0]
        if tk not in ("l", "t", "s"):
            raise Fail("type", "%s target" % k)
        nargs = {"l": 1, "t": 2, "s": 1}[tk] + (1 if k == "reduce" else 0)
        if len(f[1]) != nargs:
            raise Fail("arity", "callback")
        if k == "map":
            if tk == "l":
                return ("l", [self.apply(f, [x]) for x in target[1]])
            if tk == "t":
                out = []
                for n, v in target[1]:
                    r = self.apply(f, [("s", n), v])
                    if r[0] == "l":
                        if len(r[1]) != 2:
                            raise Fail("type", "map over tuple result")
                        if r[1][0][0] != "s":
                            raise Fail("type", "map over tuple name")
                        out.append((r[1][0][1], r[1][1]))     # PIN: duplicate result names are kept
                    else:
                        # manual: "The result should be a two item list". (Pinned as "drops the field" until the
                        # implementation, which refuses every other wrong result, was repaired to refuse this one too.)
                        raise Fail("type", "map over tuple result")
                return ("t", out)
            buf = []
            for c in target[1]:
                r = self.apply(f, [("s", c)])
                if r[0] != "s":
                    raise Fail("type", "map over string result")
                buf.append(r[1])
            return ("s", "".join(buf))
        if k == "filter":
            def keep(r):
                return not (r[0] == "n" or (r[0] == "b" and not r[1]))
            if tk == "l":
                return ("l", [x for x in target[1] if keep(self.apply(f, [x]))])
            if tk == "t":
                return ("t", [(n, v) for n, v in target[1] if keep(self.apply(f, [("s", n), v]))])
            return ("s", "".join(c for c in target[1] if keep(self.apply(f, [("s", c)]))))
        # reduce
        if tk == "l":
            for x in target[1]:
                acc = self.apply(f, [acc, x])
        elif tk == "t":
            for n, v in target[1]:
                acc = self.apply(f, [acc, ("s", n), v])
        else:
            for c in target[1]:
                acc = self.apply(f, [acc, ("s", c)])
        return acc

    # -- format ---------------------------------------------------------------------------
    @staticmethod
    def split_template(t):
        """-> list of str | None (placeholder). '\\' escapes the next character."""
        parts = []
        buf = []
        esc = False
        for c in t:
            if c == "@" and not esc:
                parts.append("".join(buf))
                buf = []
                parts.append(None)
            elif c == "\\" and not esc:
                esc = True
                continue
            else:
                buf.append(c)
            esc = False
        if buf:
            parts.append("".join(buf))
        return parts

    def ev_format(self, e, env, selfs):
        parts = self.split_template(e[1])
        n = sum(1 for p in parts if p is None)
        if n != len(e[2]):
            raise Fail("format", "placeholder count")
        # PIN: arguments are evaluated last to first
        vals = [None] * len(e[2])
        for i in range(len(e[2]) - 1, -1, -1):
            vals[i] = self.ev(e[2][i], env, selfs)
        out = []
        it = iter(vals)
        for p in parts:
            out.append(render(next(it)) if p is None else p)
        return ("s", "".join(out))

    def ev_formatx(self, e, env, selfs):
        # `item` is bound in a scope of its own
        new = dict(env)
        new["item"] = self.ev(e[2], env, selfs)
        # PIN: parts are evaluated last to first
        res = [None] * len(e[1])
        for i in range(len(e[1]) - 1, -1, -1):
            p = e[1][i]
            res[i] = p if isinstance(p, str) else render(self.ev(p, new, selfs))
        return ("s", "".join(res))

    # -- ranges and casts -----------------------------------------------------------------
    def ev_range(self, e, env, selfs):
        # PIN: evaluation order end, step, start
        end = self.ev(e[3], env, selfs)
        step = self.ev(e[2], env, selfs) if e[2] is not None else ("i", 1)
        start = self.ev(e[1], env, selfs)
        if step[0] == "n":
            step = ("i", 1)
        if not (start[0] == "i" and step[0] == "i" and end[0] == "i"):
            raise Fail("type", "range")
        if step[1] <= 0:
            raise Fail("range", "step")
        if end[1] >= start[1] and (end[1] - start[1]) // step[1] > 10000:
            raise ValueError("range longer than the generator bound")
        return ("l", [("i", n) for n in range(start[1], end[1] + 1, step[1])])

    def ev_cast(self, t, v):
        k = v[0]
        if k not in ("i", "f", "s", "b", "n"):
            raise Fail("cast", "non primitive")
        if t == "str":
            if k == "s":
                return v            # a string cast to a string is that string
            return ("s", render(v))
        if t == "int":
            if k == "i":
                return v
            if k == "f":
                x = v[1]
                if x != x:
                    return ("i", 0)     # PIN (Rust `as`): NaN -> 0, saturating
                if x >= 2.0 ** 63:
                    return ("i", I64_MAX)
                if x <= -2.0 ** 63:
                    return ("i", I64_MIN)
                return ("i", int(x))    # PIN: truncation toward zero
            if k == "s":
                if re.match(r"^[+-]?[0-9]+$", v[1]):
                    n = int(v[1])
                    if I64_MIN <= n <= I64_MAX:
                        return ("i", n)
                raise Fail("cast", "int from string")
            raise Fail("cast", "int")
        if t == "float":
            if k == "f":
                return v
            if k == "i":
                return ("f", float(v[1]))
            if k == "s":
                if re.match(r"^[+-]?([0-9]+\.?[0-9]*|\.[0-9]+)([eE][+-]?[0-9]+)?$", v[1]):
                    return ("f", float(v[1]))
                raise Fail("cast", "float from string")
            raise Fail("cast", "float")
        if t == "bool":
            if k == "b":
                return v
            if k == "s" and v[1] in ("true", "false"):
                return ("b", v[1] == "true")
            raise Fail("cast", "bool")
        raise ValueError(t)


# ---------------------------------------------------------------------------------------------
# decoding what the implementation returned

def from_wire(j):
    """ucgmc's JSON value encoding -> reference value (plain)."""
    if j is None:
        return NULL
    if j is True or j is False:
        return ("b", j)
    if isinstance(j, str):
        return ("s", j)
    if "i" in j:
        return ("i", int(j["i"]))
    if "f" in j:
        s = j["f"]
        return ("f", float("nan") if s == "NaN" else float(s))
    if "l" in j:
        return ("l", [from_wire(x) for x in j["l"]])
    if "t" in j:
        return ("t", [(k, from_wire(v)) for k, v in j["t"]])
    if "k" in j:
        return ("K", j["k"])
    raise ValueError(j)


def same_value(a, b):
    """structural identity: floats bitwise (NaN = NaN, -0.0 != 0.0), tuples ordered"""
    if a[0] != b[0]:
        return False
    k = a[0]
    if k == "f":
        x, y = a[1], b[1]
        if x != x and y != y:
            return True
        return x == y and math.copysign(1, x) == math.copysign(1, y)
    if k == "l":
        return len(a[1]) == len(b[1]) and all(same_value(x, y) for x, y in zip(a[1], b[1]))
    if k == "t":
        return len(a[1]) == len(b[1]) and all(n == m and same_value(x, y) for (n, x), (m, y) in zip(a[1], b[1]))
    if k == "n":
        return True
    return a[1] == b[1]


ERR_CLASSES = [
    ("parse", re.compile(r"ParseError")),
    ("name", re.compile(r"No such binding")),
    ("select", re.compile(r"Unhandled select case")),
    ("user", re.compile(r"UserDefined: ")),
    ("arity", re.compile(r"Func called with too")),
    ("index", re.compile(r"Invalid selector index")),
    ("arith", re.compile(r"Integer overflow|Division by zero|Modulus by zero")),
    ("cast", re.compile(r"No cast from")),
    ("format", re.compile(r"Format string has")),
    ("rebind", re.compile(r"Binding .* already exists")),
    ("reserved", re.compile(r"is a reserved word")),
    ("range", re.compile(r"Range step must be")),
]


def classify_error(msg):
    for cls, rx in ERR_CLASSES:
        if rx.search(msg):
            return cls
    return "type"
