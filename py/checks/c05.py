"""C05 — formatting never changes meaning or loses comments.

E1 through the `fmt` op (parse with a comment map + AstPrinter::render, the code path of
`ucg fmt`): for every text s of the bounded space with A = parse(s) and t = fmt(s):
  (a) parse(t) succeeds and equals A after the normaliser of mc/src/astjson.rs erased positions
      and the QUOTED/BAREWORD distinction of field names;
  (b) the comments of t (independent scanner, trimmed) are those of s: same texts, order, count;
  (c) fmt(t) = t whenever all comments of s stand on lines of their own between statements.
The `ucg fmt` and `ucg fmt -w` CLI paths are bound in on the literal-form and repository-file sets.
"""
import itertools
import os
import shutil
import tempfile

from vf import core, reflex
from vf.refsem import pr_prog
from checks import c01, c04, c11

LEVEL = "exploration"

# canonical instances of every statement / expression form (tokens separated by single spaces)
CANON = c11.CANON + [
    'let t = { a :: 1 = 2 , "b c" = 3 , } ;',
    'let f = func ( a :: 0 , b :: "" ) => a ;',
    'let m = module { a :: 1 = 2 , } => ( r :: 0 ) { let r = mod . a ; } ;',
    'let m2 = module { } => { let r = 1 ; let q = 2 ; } ;',
    'let k :: in 1 .. 3 | "a" = 2 ;',
    'let k2 :: { a = 1 } = { a = 2 } ;',
    'constraint p2 = in 1 .. | in .. 3 | 5 ;',
    'let rg2 = 0 : 10 ;',
    'let rg3 = ( 0 + 1 ) : ( 1 + 1 ) : ( 5 * 2 ) ;',
    'let sel = select ( x ) => { a = 1 , b = 2 , } ;',
    'let sel2 = select ( "a" , fail "no" ) => { a = 1 , } ;',
    'let cp = t . a { b = 2 , } ;',
    'let cl = t . f ( 1 ) ;',
    'let cl0 = f ( ) ;',
    'let cl3 = f ( 1 , 2 , 3 ) ;',
    'let nn = not ( a && b ) ;',
    'let fl = 1.5 + 2.0 ;',
    'let st = "q\\"q" + "b\\\\s" ;',
    'let un = "é😀" ;',
    'let l2 = [ [ 1 , ] , { a = 1 , } , ] ;',
    'let em = [ ] + { } . a ;',
    'let tr2 = TRACE ( 1 + 2 ) ;',
    'let fm2 = "@ @" % ( 1 , 2 ) ;',
    'let i2 = ( import "x.ucg" ) . v ;',
    'let b64 = include b64 "x.bin" ;',
    'out yaml { a = 1 , } ;',
    'assert { ok = 1 == 1 , desc = "d" , } ;',
    '1 + 2 ;',
    'let q2 = t . "a b" . 0 ;',
    'let fn2 = func ( ) => { a = 1 , } ;',
    'let mp2 = map ( func ( a ) => a , [ 1 , ] ) ;',
    'let neg = 0 - 1 ;',
    'let u = { "_x" = 1 , a1 = 2 , a-b = 3 , "1a" = 4 , "" = 5 , } ;',
    'let w = { "NULL" = 1 , "trueness" = 2 , "true" = 3 , "NULLable" = 4 , let = 5 , "falsey" = 6 , false = 7 , in = 8 , } ;',
    'let sb = select ( true ) => { true = 1 , false = 2 , } ;',
]
GAP_SEPS = ["", " ", "\t", "\n", "\r\n", "\n    ", "// c\n", " // c\n", "//\n", "//x\n", "\n// own line\n"]

LITERALS = [
    "let x = 1.0;", "let x = 0.5;", "let x = .5;", "let x = 100000000000000000000000.0;", "let x = 0.000001;",
    "let x = 0.1 + 0.2;", "let x = 9223372036854775807;", "let x = 007;", "let x = 1.50;",
    'let x = "\\n\\t\\r";', 'let x = "a\\\\n";', 'let x = "\\"";', 'let x = "\\\\";', 'let x = "a\nb";', 'let x = "\\@ @";', 'let x = "\\q";',
    'let x = "é→日本😀";', 'let x = "";', 'let x = " ";', 'let x = "//not a comment";', 'let x = "tab\there";',
    "let x = 0:2:10;", "let x = 1:10;", "let x = (0):(2):(10);", "let x = a:b:c;", "let x = 0:10:100;",
    "let x = true; let y = false; let z = NULL;",
    "let x = {};", "let x = [];", "let x = {a = {}};", "let x = [[]];",
    'let x = {"quoted field" = 1};', 'let x = {"a" = 1};', 'let x = t."quoted field";',
    # a float literal beyond f64 (reads as infinity) and one below it (reads as 0.0)
    "let x = 1" + "0" * 309 + ".0;", "let x = 0." + "0" * 330 + "1;", "let x = 1" + "0" * 308 + ".0;",
    # non-ASCII text together with a character the printer escapes, in every place a string can stand
    r'let x = "é\"q";', r'let x = "日本\\";', r'let x = "😀\"\\é";', r'let x = {"é\"k" = 1};', r'let x = t."é\"k";', r'let x = "é\"@" % (1);',
    r'let x = include str "é\"f.txt";', r'let x = import "é\\g.ucg";', r'let x = fail "é\"m";', r'assert {ok = true, desc = "é\"d"};',
    r'let x = "é\"@{item}" % 1;', r'let x = "a" ~ "é\"r";', r'let x = "é\n\"";',
]

# Comment groups after the last statement, before a closing brace and in files that hold nothing else: 0..3 groups of
# 1..2 lines each, separated by blank lines (the printer flushes what is left at the end of the file)
def trailing_comment_texts():
    groups = [["// g1"], ["// g1a", "// g1b"]]
    bodies = ["", "let a = 1;\n", "let a = 1;\nlet b = {\n    c = 1,\n};\n", "let t = {\n    a = 1,\n    // before the brace\n};\n"]
    for body in bodies:
        for n in range(0, 4):
            for shape in itertools.product(range(len(groups)), repeat=n):
                blocks = ["\n".join(x.replace("g1", "g%d" % (i + 1)) for x in groups[g]) for i, g in enumerate(shape)]
                for sep in ("\n\n", "\n\n\n"):
                    text = body + sep.join(blocks) + ("\n" if blocks else "")
                    if text.strip():
                        yield text
                        if blocks:
                            yield body + "\n" + sep.join(blocks)          # a blank line first, no line break at the end



# Comments at the end of a statement's line (a layout the printer moves onto lines of their own): two statements at the top
# level and in a module body, each with or without a comment before it and with or without one after it on its line. What the
# printer makes of them has its comments on lines of their own between statements, so that text must be a fixed point
# (a sixth-round remark about the unchanged tree).
def same_line_comment_texts():
    for ctxn, (pre, post, ind) in (("top-level", ("", "", "")), ("module-body", ("let m = module {} => {\n", "};\n", "    "))):
        for b1, t1, b2, t2 in itertools.product([0, 1], repeat=4):
            s = pre
            if b1:
                s += ind + "// before first\n"
            s += ind + "let a = 1;" + (" // after first" if t1 else "") + "\n"
            if b2:
                s += ind + "// before second\n"
            s += ind + "let b = 2;" + (" // after second" if t2 else "") + "\n"
            yield ("same-line-comments:" + ctxn, s + post)


def own_line_in_bodies(text):
    """like own_line_between_statements, and the line that opens a module body counts as the end of a statement"""
    prev_ok = True
    for ln in text.split("\n"):
        st = ln.strip()
        if st.startswith("//"):
            if not prev_ok:
                return False
            continue
        if "//" in st and reflex.comments(ln):
            return False
        if st == "":
            continue
        prev_ok = st.endswith(";") or st.endswith("=> {")
    return True


def comments_trimmed(text):
    return [c.strip() for c in reflex.comments(text)]


def own_line_between_statements(text):
    """True if every comment of `text` stands on a line of its own and (conservatively) directly
    follows a line that ends a statement, another such comment, a blank line or the file start."""
    lines = text.split("\n")
    prev_ok = True
    for ln in lines:
        st = ln.strip()
        if st.startswith("//"):
            if not prev_ok:
                return False
            continue
        if "//" in st and reflex.comments(ln):
            return False
        if st == "":
            continue
        prev_ok = st.endswith(";")
    return True


def check_text(srv, s, want_fix=None, fix_on_output=False):
    """-> (outcome class, violation detail or None)"""
    r = srv.req({"op": "fmt", "src": s, "ast": True})
    if "panic" in r or "abort" in r or "hang" in r:
        return "CRASH", ("crash", r)
    if "ok" not in r:
        return "unparsable(skipped)", None
    t = r["ok"].get("utf8")
    if t is None:
        return "NON-UTF8-OUTPUT", ("non-utf8", r["ok"])
    a = r["ast"]
    p2 = srv.req({"op": "parse", "src": t})
    if "ok" not in p2:
        return "OUTPUT-UNPARSABLE", ("output-unparsable", {"formatted": t, "error": p2.get("err")})
    if p2["ok"] != a:
        return "AST-CHANGED", ("ast-changed", {"formatted": t, "before": a, "after": p2["ok"]})
    cs, ct = comments_trimmed(s), comments_trimmed(t)
    if cs != ct:
        return "COMMENTS-CHANGED", ("comments-changed", {"formatted": t, "before": cs, "after": ct})
    if want_fix if want_fix is not None else (own_line_between_statements(s) or (fix_on_output and own_line_in_bodies(t))):
        r2 = srv.req({"op": "fmt", "src": t})
        t2 = r2.get("ok", {}).get("utf8") if "ok" in r2 else None
        if t2 != t:
            return "NOT-A-FIXED-POINT", ("not-a-fixed-point", {"formatted": t, "formatted_again": t2 if t2 is not None else r2})
        return "ok+fixpoint", None
    return "ok", None


def work_texts(chunk):
    srv = core.worker_server()
    hist = {}
    viol = []
    for kind, s in chunk:
        oc, v = check_text(srv, s, fix_on_output=kind.startswith("same-line-comments"))
        k = "%s:%s" % (kind, oc)
        hist[k] = hist.get(k, 0) + 1
        if v is not None:
            viol.append((kind, s, v[0], v[1]))
    return {"evals": len(chunk), "hist": hist, "viol": viol[:300], "sample": chunk[len(chunk) // 2][1][-160:] if chunk else None}


def work_progs(chunk):
    out = []
    for desc in chunk:
        try:
            st = desc[2] if desc[0] == "s4" else c01.expand(desc)
            out.append(("prog", pr_prog(st)))
        except ValueError:
            pass
    return work_texts(out)


def work_layout(chunk):
    texts = []
    for canon, ngaps in chunk:
        tokens = canon.split(" ")
        want = c11.tok_view(reflex.lex(canon))
        n = len(tokens)
        for chosen in itertools.combinations(range(n + 1), ngaps):
            for seps in itertools.product(GAP_SEPS, repeat=ngaps):
                if all(x == " " for x in seps):
                    continue
                sep_at = dict(zip(chosen, seps))
                parts = []
                for g in range(n + 1):
                    parts.append(sep_at.get(g, "" if g in (0, n) else " "))
                    if g < n:
                        parts.append(tokens[g])
                text = "".join(parts)
                try:
                    if c11.tok_view(reflex.lex(text)) != want:
                        continue
                except reflex.LexError:
                    continue
                texts.append(("layout%d" % ngaps, text))
    return work_texts(texts)


def sig_of(kind, s, cls, detail):
    """Abstract the minimal witness: the failure class + what the text contains at the failing
    spot. For layout cases: the separator that was inserted and the tokens around it."""
    feats = []
    if "//" in s:
        feats.append("comment")
    return cls, feats


def run(ctx):
    thorough = ctx.tier == "thorough"
    nt = len(c01.TEMPLATES)
    ctx.bounds = {"canonical_forms": len(CANON), "gap_separators": len(GAP_SEPS), "gaps_at_once": 2 if thorough else 1, "literal_forms": len(LITERALS)}
    ctx.rule = ("C01 strata S1, S2, S3-pairs, S4 printed to source; %d canonical statement forms (every statement and expression kind incl. "
                "constraints, out, assert, import, include, convert, range with step) with each of %d separators (blank, tab, LF, CRLF, "
                "indentation, four comment placements) at every gap between tokens (%s); %d literal forms; every .ucg file of the repository; "
                "0..3 comment groups of 1..2 lines after 4 bodies (nothing, one statement, a multi-line statement, a comment before a closing brace). "
                "Each text is distinct; non-trivial = it parses, so the formatter ran." % (
                    len(CANON), len(GAP_SEPS), "one and two gaps at a time" if thorough else "one gap at a time", len(LITERALS)))
    viol = []
    # every hand-written form must parse: one that does not would be skipped silently and test nothing (DESIGN 0.3 item 20)
    srv0 = core.Server()
    try:
        for form in list(CANON) + list(LITERALS) + sorted(set(trailing_comment_texts())):
            r0 = srv0.req({"op": "parse", "src": form})
            if "ok" not in r0:
                raise RuntimeError("C05 harness: a hand-written form does not parse: %r -> %s" % (form, str(r0)[:200]))
    finally:
        srv0.close()

    def absorb(part):
        nt_ = sum(v for k, v in part["hist"].items() if "unparsable(skipped)" not in k)
        ctx.count(part["evals"], nt_)
        for k, v in part["hist"].items():
            ctx.outcome(k, v)
        if part.get("sample"):
            ctx.sample(part["sample"])
        viol.extend(part["viol"])

    def descs():
        for op in c01.OPS:
            for a in range(c01.NLEAVES):
                for b in range(c01.NLEAVES):
                    yield ("s1", op, a, b)
        for t in range(nt):
            for leaf in range(c01.NLEAVES):
                yield ("path", (t,), leaf, False)
        for t1 in range(nt):
            for t2 in range(nt):
                yield ("pathT", (t1, t2))
        for d, st in c01.gen_s4():
            yield ("s4", d, st)
    for part in core.pmap_gen(work_progs, descs(), chunk=800):
        absorb(part)
    lay = [(c, 1) for c in CANON] + ([(c, 2) for c in CANON] if thorough else [])
    for part in core.pmap(work_layout, lay, chunk=1):
        absorb(part)
    texts = [("literal", s) for s in LITERALS] + [("file", s) for _, s in c04.repo_sources(250000)]
    texts += [("trailing-comments", s) for s in sorted(set(trailing_comment_texts()))]
    texts += list(same_line_comment_texts())
    # whole files with own-line comments inserted between statements
    for part in core.pmap(work_texts, texts, chunk=8):
        absorb(part)
    cli_part = cli_paths([s for s in LITERALS] + [s for _, s in c04.repo_sources(6000)][:40])
    absorb(cli_part)

    viol.sort(key=lambda v: (len(v[1]), v[1]))
    seen = {}
    for kind, s, cls, detail in viol:
        sig = make_sig(kind, s, cls, detail)
        if sig in seen:
            ctx.violations[sig]["count"] += 1
            continue
        seen[sig] = 1
        if len(seen) > 150:
            break
        ctx.violation(sig, "%s on %r" % (cls, s if len(s) < 160 else s[:160] + "..."), {"kind": kind, "src": s, "class": cls, "detail": detail})


def make_sig(kind, s, cls, detail):
    if kind.startswith("same-line-comments"):
        return "%s:%s" % (cls, kind)
    if kind.startswith("layout"):
        # which canonical form and which separator kind at which token
        canon = " ".join(t[1] if t[0] != "QUOTED" else '"%s"' % t[1] for t in reflex.lex(s)[:-1])
        seps = []
        for sep in sorted(GAP_SEPS, key=lambda x: -len(x)):
            if sep.strip() and sep in s:
                seps.append(repr(sep))
        if "\r\n" in s:
            seps.append("CRLF")
        # position: the token before the first comment / unusual separator
        idx = s.find("//")
        before = s[:idx].split()[-1] if idx > 0 and s[:idx].split() else "^"
        after = s[idx:].split("\n", 1)[1].split()[0] if idx >= 0 and "\n" in s[idx:] and s[idx:].split("\n", 1)[1].split() else "$"
        return "%s:%s:after[%s]before[%s]:%s" % (cls, "+".join(seps) or "ws", before, after, canon[:50])
    return "%s:%s:%s" % (cls, kind, s if len(s) <= 70 else core.hashlib.sha1(s.encode()).hexdigest()[:10])


def cli_paths(texts):
    """`ucg fmt f` (stdout) and `ucg fmt -w f` (rewritten file) must give the bytes the in-process
    printer gives."""
    srv = core.Server()
    hist = {}
    viol = []
    d = tempfile.mkdtemp(prefix="ucgverif-c05-")
    try:
        for i, s in enumerate(texts):
            r = srv.req({"op": "fmt", "src": s})
            if "ok" not in r:
                continue
            want = r["ok"].get("utf8")
            p = os.path.join(d, "f%d.ucg" % i)
            with open(p, "w") as f:
                f.write(s)
            rc, out, err = core.run_ucg(["fmt", p], cwd=d)
            got1 = out.decode("utf-8", "replace")
            rc2, out2, err2 = core.run_ucg(["fmt", "-w", p], cwd=d)
            got2 = open(p, newline="").read()
            if rc != 0 or rc2 != 0 or got1 != want or got2 != want:
                viol.append(("cli", s, "cli-differs-from-printer", {"rc": [rc, rc2], "stdout": got1, "rewritten": got2, "printer": want}))
                k = "cli:DIFFERS"
            else:
                k = "cli:same-as-printer"
            hist[k] = hist.get(k, 0) + 1
        # the other routes of the command: several files in one invocation (stdout carries them in order), a directory
        # (its files are rewritten in place) and -r (sub-directories too); groups of 3 texts that format to something else
        # than themselves, so that an untouched file is noticed
        pool = []
        for s in texts:
            r = srv.req({"op": "fmt", "src": s})
            if "ok" in r and r["ok"].get("utf8") is not None and r["ok"]["utf8"] != s:
                pool.append((s, r["ok"]["utf8"]))
        # three files that each carry comments of their own on different lines (what one file's comments are must not
        # depend on the files formatted before it in the same invocation)
        commented = ["// first file, line 1\nlet a = 1;\n// first file, line 3\nlet b = 2;\n\n// first file, after a gap\nlet c = [1,\n  // inside a list\n  2];\n",
                     "let x = {a = 1,\n  // second file, inside a tuple\n  b = 2};\n",
                     "// third file\n\n\nlet y = 1;\n// third file, last line\n"]
        cpool = []
        for s in commented:
            r = srv.req({"op": "fmt", "src": s})
            if "ok" not in r or r["ok"].get("utf8") is None:
                raise RuntimeError("C05 harness: a commented form does not format: %r" % s)
            cpool.append((s, r["ok"]["utf8"]))
        groups = [cpool, cpool[::-1], [cpool[1], cpool[0], cpool[2]]] + [pool[g:g + 3] for g in range(0, min(len(pool), 30) - 2, 3)]
        for g, grp in enumerate(groups):
            dd = os.path.join(d, "grp%d" % g)
            os.makedirs(os.path.join(dd, "sub", "deeper"))
            names = ["a.ucg", os.path.join("sub", "b.ucg"), os.path.join("sub", "deeper", "c.ucg")]
            for (src, _), n in zip(grp, names):
                with open(os.path.join(dd, n), "w") as f:
                    f.write(src)
            bad = None
            rc, out, err = core.run_ucg(["fmt"] + names, cwd=dd)
            if rc != 0 or out.decode("utf-8", "replace") != "".join(w for _, w in grp):
                bad = ("cli-several-files-differ-from-printer", {"rc": rc, "stdout": out.decode("utf-8", "replace"), "printer": [w for _, w in grp]})
            if bad is None:
                # a directory without sub-directories (with one, and without -r, the command gives up with "Is a directory":
                # seen, not judged — the property speaks of the text that is written)
                flat = os.path.join(dd, "flat")
                os.makedirs(flat)
                for k2, (src, _) in enumerate(grp):
                    with open(os.path.join(flat, "f%d.ucg" % k2), "w") as f:
                        f.write(src)
                rc, out, err = core.run_ucg(["fmt", "flat"], cwd=dd)
                got = [open(os.path.join(flat, "f%d.ucg" % k2), newline="").read() for k2 in range(len(grp))]
                if rc != 0 or got != [w for _, w in grp]:
                    bad = ("cli-directory-differs-from-printer", {"rc": rc, "files": got, "printer": [w for _, w in grp], "stderr": err.decode("utf-8", "replace")[-300:]})
                shutil.rmtree(flat)
            if bad is None:
                rc, out, err = core.run_ucg(["fmt", "-r", "."], cwd=dd)
                got = [open(os.path.join(dd, n), newline="").read() for n in names]
                if rc != 0 or got != [w for _, w in grp]:
                    bad = ("cli-recursive-differs-from-printer", {"rc": rc, "files": got, "printer": [w for _, w in grp], "stderr": err.decode("utf-8", "replace")[-300:]})
            k = "cli-routes:" + ("same-as-printer" if bad is None else "DIFFERS")
            hist[k] = hist.get(k, 0) + 1
            if bad:
                viol.append(("cli-routes", "\n//----\n".join(src for src, _ in grp), bad[0], bad[1]))
    finally:
        srv.close()
        shutil.rmtree(d, ignore_errors=True)
    return {"evals": len(texts), "hist": hist, "viol": viol, "sample": None}


def replay(case):
    srv = core.Server()
    try:
        if case["kind"] in ("cli", "cli-routes"):
            part = cli_paths(case["src"].split("\n//----\n") if case["kind"] == "cli-routes" else [case["src"]])
            return not part["viol"], {"violations": part["viol"]}
        oc, v = check_text(srv, case["src"], fix_on_output=str(case.get("kind", "")).startswith("same-line-comments"))
        return v is None, {"outcome": oc, "detail": v}
    finally:
        srv.close()
