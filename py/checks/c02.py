"""C02 — operator chains group by the published precedence table, left to right.

Engine E1: every chain in the bounded space is parsed by the real `ucglib::parse::parse` and the
resulting tree is compared with a definitional grouper that never looks at the parser's
algorithm (split at the rightmost operator of the lowest level; recurse; a parenthesised
sub-chain is an atom that must surface as a Grouped node exactly there).
"""
import itertools

from vf import core

LEVEL = "exploration"

# The table of docsite/site/content/reference/expressions.md ("=~" there is spelled "~" by the
# tokenizer and parser; that spelling is what is used).
TABLE = [
    ("==", 1, "Equal"), ("!=", 1, "NotEqual"), (">=", 1, "GTEqual"), ("<=", 1, "LTEqual"),
    ("<", 1, "LT"), (">", 1, "GT"), ("~", 1, "REMatch"), ("!~", 1, "NotREMatch"),
    ("in", 2, "IN"), ("is", 2, "IS"),
    ("+", 3, "Add"), ("-", 3, "Sub"),
    ("*", 4, "Mul"), ("/", 4, "Div"), ("%%", 4, "Mod"),
    ("&&", 5, "AND"), ("||", 5, "OR"),
    (".", 6, "DOT"),
]
OPS = [t[0] for t in TABLE]
PREC = {t[0]: t[1] for t in TABLE}
KIND = {t[0]: t[2] for t in TABLE}
NAMES = "abcdefghijk"

# closed operand forms for the operand-independence sweep: (source, ast json)
OPERAND_FORMS = [
    ('"s"', ["str", "s"]),
    ("[1]", ["list", [["int", "1"]]]),
    ("{x = 1}", ["tuple", [["x", None, ["int", "1"]]]]),
    ("f(x)", ["call", ["sym", "f"], [["sym", "x"]]]),
    ("t{}", ["copy", ["sym", "t"], []]),
    ("(x)", ["group", ["sym", "x"]]),
    ("7", ["int", "7"]),
    ("NULL", ["null"]),
    ("true", ["bool", True]),
]


def group(operands, ops):
    """Definitional grouping. operands: list of ast-json atoms, ops: list of operator spellings."""
    if not ops:
        return operands[0]
    low = min(PREC[o] for o in ops)
    k = max(i for i, o in enumerate(ops) if PREC[o] == low)
    return ["bin", KIND[ops[k]], group(operands[:k + 1], ops[:k]), group(operands[k + 1:], ops[k + 1:])]


def render(operands_src, ops):
    parts = [operands_src[0]]
    for o, x in zip(ops, operands_src[1:]):
        parts.append(o)
        parts.append(x)
    return " ".join(parts)


# A "paren tree" over a chain: either a leaf operand index, or ('g', [items], [ops]) meaning a
# parenthesised sub-chain. A case is (items, ops) at top level where items are leaves or groups.

def expected_of(items, ops):
    return group([expected_item(i) for i in items], ops)


def expected_item(it):
    if isinstance(it, tuple) and it[0] == "g":
        return ["group", expected_of(it[1], it[2])]
    if isinstance(it, tuple) and it[0] == "x":   # explicit operand (src, ast)
        return it[2]
    return ["sym", it]


def src_item(it):
    if isinstance(it, tuple) and it[0] == "g":
        return "(" + src_of(it[1], it[2]) + ")"
    if isinstance(it, tuple) and it[0] == "x":
        return it[1]
    return it


def src_of(items, ops):
    return render([src_item(i) for i in items], ops)


def paren_placements(n_ops, names, ops, depth):
    """All ways to put `depth` nested levels of ONE pair of parentheses around contiguous
    sub-chains: level 1 = every (i, j) operand interval [i, j] (including single operands and the
    whole chain); level 2 = additionally one pair inside or around the first."""
    n = n_ops + 1
    base_items = list(names[:n])
    out = []
    for i in range(n):
        for j in range(i, n):
            g = ("g", base_items[i:j + 1], list(ops[i:j]))
            items = base_items[:i] + [g] + base_items[j + 1:]
            o = list(ops[:i]) + list(ops[j:])
            out.append((items, o))
            if depth >= 2:
                # second pair inside the first
                for a in range(i, j + 1):
                    for b in range(a, j + 1):
                        inner = ("g", base_items[a:b + 1], list(ops[a:b]))
                        g_items = base_items[i:a] + [inner] + base_items[b + 1:j + 1]
                        g_ops = list(ops[i:a]) + list(ops[b:j])
                        g2 = ("g", g_items, g_ops)
                        out.append((base_items[:i] + [g2] + base_items[j + 1:], o))
                # second pair disjoint, to the right of the first
                for a in range(j + 1, n):
                    for b in range(a, n):
                        g3 = ("g", base_items[a:b + 1], list(ops[a:b]))
                        items2 = base_items[:i] + [g] + base_items[j + 1:a] + [g3] + base_items[b + 1:]
                        o2 = list(ops[:i]) + list(ops[j:a]) + list(ops[b:])
                        out.append((items2, o2))
    return out


def chains(length):
    return itertools.product(OPS, repeat=length)


def decode_chain(idx, length):
    ops = []
    for _ in range(length):
        ops.append(OPS[idx % 18])
        idx //= 18
    return tuple(reversed(ops))


def _check_cases(cases):
    """cases: list of (kind, items, ops). Returns summary."""
    srv = core.worker_server()
    reqs = []
    for kind, items, ops in cases:
        reqs.append({"op": "parse", "src": src_of(items, ops) + ";"})
    resps = srv.req_many(reqs)
    viol = []
    hist = {}
    samples = []
    for (kind, items, ops), rq, rs in zip(cases, reqs, resps):
        exp = [["expr", expected_of(items, ops)]]
        if rs.get("ok") == exp:
            cls = "%s:ok" % kind
        else:
            cls = "%s:MISMATCH" % kind
            viol.append((kind, rq["src"], list(ops), exp, rs))
        hist[cls] = hist.get(cls, 0) + 1
    if cases:
        k, items, ops = cases[len(cases) // 2]
        samples.append(src_of(items, ops) + ";")
    return {"evals": len(cases), "hist": hist, "viol": viol, "samples": samples}


def work_plain(chunk):
    """chunk: list of (length, start, count) index ranges over the chain space."""
    cases = []
    for length, start, count in chunk:
        for idx in range(start, start + count):
            ops = decode_chain(idx, length)
            cases.append(("chain%d" % length, list(NAMES[:length + 1]), list(ops)))
    return _check_cases(cases)


def work_paren(chunk):
    cases = []
    for length, idx, depth in chunk:
        ops = decode_chain(idx, length)
        seen = set()
        for items, o in paren_placements(length, NAMES, ops, depth):
            s = src_of(items, o)
            if s in seen:      # distinct source texts only (a chain determines its texts)
                continue
            seen.add(s)
            cases.append(("paren%d" % depth, items, o))
    return _check_cases(cases)


def work_operand(chunk):
    cases = []
    for length, idx in chunk:
        ops = decode_chain(idx, length)
        n = length + 1
        for pos in range(n):
            for src, ast in OPERAND_FORMS:
                # ints next to '.' are lexically floats ("1 . 2" is fine but "a . 7" must stay an
                # index); keep numeric literals away from '.' as DESIGN says.
                if src == "7" and ((pos > 0 and ops[pos - 1] == ".") or (pos < length and ops[pos] == ".")):
                    continue
                items = list(NAMES[:n])
                items[pos] = ("x", src, ast)
                cases.append(("operand", items, list(ops)))
    return _check_cases(cases)


def work_index_and_float(chunk):
    """An integer index after a dot and a float literal elsewhere in the same chain: the index is an operand of the dot,
    the float stays one operand. (A float directly next to a dot is left out: `0 . 1` is lexically the float 0.1.)"""
    cases = []
    for length, idx in chunk:
        ops = decode_chain(idx, length)
        n = length + 1
        for k, op in enumerate(ops):
            if op != ".":
                continue
            # operand k+1 is the index; it must not touch another dot
            if k + 1 < length and ops[k + 1] == ".":
                continue
            for p in range(n):
                if p == k + 1 or (p > 0 and ops[p - 1] == ".") or (p < length and ops[p] == "."):
                    continue
                items = list(NAMES[:n])
                items[k + 1] = ("x", "0", ["int", "0"])
                items[p] = ("x", "1.5", ["float", "1.5"])
                cases.append(("index+float", items, list(ops)))
    return _check_cases(cases)


def run(ctx):
    thorough = ctx.tier == "thorough"
    maxlen = 5 if thorough else 4
    ctx.bounds = {"chain_length": maxlen, "paren_chain_length": 3, "paren_depth": 2 if not thorough else 2,
                  "operand_chain_length": 2, "operators": 18}
    ctx.rule = ("every sequence of 1..%d operators over all 18 binary operators between distinct symbols; for chains <= 3 every "
                "placement of one pair and of two pairs (nested or disjoint) of parentheses around contiguous sub-chains; for chains <= 2 every "
                "operand position x 9 closed operand forms; every chain of 2..3 operators with a dot whose right operand is an integer index and a float literal at "
                "every other position that does not touch a dot. Each case is a distinct source text; non-trivial = has >= 2 operators or a "
                "parenthesis or a compound operand (the tree shape is not forced by arity alone)." % maxlen)
    failing = []

    def absorb(part, nontrivial_kinds):
        n = part["evals"]
        nt = 0
        for k, v in part["hist"].items():
            ctx.outcome(k, v)
            if not k.startswith("chain1:"):
                nt += v
        ctx.count(n, nt)
        for s in part["samples"]:
            ctx.sample(s)
        failing.extend(part["viol"])

    # (i) plain chains
    for length in range(1, maxlen + 1):
        total = 18 ** length
        step = 4000
        chunks = [(length, s, min(step, total - s)) for s in range(0, total, step)]
        for part in core.pmap(work_plain, chunks, chunk=1):
            absorb(part, None)
    # (ii) parenthesisations
    items = [(length, idx, 2) for length in range(1, 4) for idx in range(18 ** length)]
    for part in core.pmap(work_paren, items, chunk=40):
        absorb(part, None)
    if thorough:
        # every chain of length 4 with one pair of parentheses
        items = [(4, idx, 1) for idx in range(18 ** 4)]
        for part in core.pmap(work_paren, items, chunk=200):
            absorb(part, None)
    # (iii) operand independence
    items = [(length, idx) for length in range(1, 3) for idx in range(18 ** length)]
    for part in core.pmap(work_operand, items, chunk=20):
        absorb(part, None)

    items = [(length, idx) for length in range(2, 4) for idx in range(18 ** length) if "." in decode_chain(idx, length)]
    for part in core.pmap(work_index_and_float, items, chunk=40):
        absorb(part, None)

    # signatures: minimal failing operator sequences
    fail_ops = {}
    for kind, src, ops, exp, rs in failing:
        fail_ops.setdefault((kind.rstrip("0123456789") if kind.startswith("chain") else kind, tuple(ops)), (src, exp, rs))
    plain_fail = set(o for (k, o) in fail_ops if k == "chain")

    def has_failing_subchain(ops):
        n = len(ops)
        for ln in range(1, n):
            for s in range(0, n - ln + 1):
                if tuple(ops[s:s + ln]) in plain_fail:
                    return True
        return False

    emitted = 0
    for (kind, ops), (src, exp, rs) in sorted(fail_ops.items(), key=lambda kv: (len(kv[0][1]), kv[0])):
        if kind == "chain" and has_failing_subchain(ops):
            continue
        if kind != "chain" and (tuple(ops) in plain_fail or has_failing_subchain(ops)) and emitted > 0:
            continue
        observed = rs.get("ok") or rs
        sig = "%s:%s" % (kind, " ".join(ops)) if kind == "chain" else "%s:%s" % (kind, src)
        ctx.violation(sig, "grouping of `%s` differs from the precedence table" % src,
                      {"kind": "parse", "src": src, "expected": exp, "observed": observed})
        emitted += 1
        if emitted >= 60:
            break


def replay(case):
    srv = core.Server()
    try:
        rs = srv.req({"op": "parse", "src": case["src"]})
    finally:
        srv.close()
    return rs.get("ok") == case["expected"], {"observed": rs}
