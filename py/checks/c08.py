"""C08 — shell-facing output delivers every value as one unaltered word.

E3: the env, flags and exec converters are run in-process (byte-exact output), the text is
handed to /bin/sh (dash) and to bash in batches; every case runs in its own subshell that
sources the env text / evals `set -- <flags>` / runs the exec script with `exec` replaced by an
argv-dumping function, and prints variables or "$@" NUL-separated between case markers.
Expected: exactly one word per scalar, byte-identical to the input, all scalars present once and
in order, skipped fields (NULL, list, tuple) neither defined nor swallowing their successors.
"""
import itertools
import os
import shutil
import subprocess
import tempfile

from vf import core, refsem

LEVEL = "exploration"

ALPHA = ["'", '"', "\\", "$", "`", " ", "\n", "*", "a"]
UNICODE = ["é", "日本 語", "😀'😀", "a\tb", "~", "~root", "#c", "a;b", "a&b", "a|b", "(x)", "<x>", "{a,b}", "[ab]", "?", "!!", "!a", "%s", "-n", "--",
           "-e", "\\n", "$(echo hi)", "`echo hi`", "${a}", "$a", "$$", "a=b", "\r", "a\r\nb", "\x7f", "\x01", "  ", "\n\n", "x" * 1000, "=", " "]
PACK = 5


def T(*kv):
    return {"t": [[k, v] for k, v in kv]}


def L(*x):
    return {"l": list(x)}


def I(n):
    return {"i": str(n)}


def strings(maxlen):
    out = [""]
    for ln in range(1, maxlen + 1):
        out.extend("".join(p) for p in itertools.product(ALPHA, repeat=ln))
    return out + UNICODE


# ---------------------------------------------------------------------------------------------
# cases: (placement, wire value for the converter, converter, expected)

KIND_VALUES = {"str": "s p'q\"$a", "int": I(7), "float": {"f": "1.5"}, "bool": True, "null": None, "list": L(I(1), "x y"), "tuple": T(("q", I(1)))}
KIND_RENDER = {"str": "s p'q\"$a", "int": "7", "float": "1.5", "bool": "true"}
# a constraint value is one more kind of field / list item that is skipped (env) / left out (flags)
FIELD_KIND_VALUES = dict(KIND_VALUES, constraint={"k": 1})


def string_cases(strs):
    packs = [strs[i:i + PACK] for i in range(0, len(strs), PACK)]
    for p in packs:
        names = ["F%d" % i for i in range(len(p))]
        yield ("env-value", "env", T(*zip(names, p)), {"vars": dict(zip(names, p)), "unset": []})
        fn = ["f%d" % i for i in range(len(p))]
        argv = []
        for n, s in zip(fn, p):
            argv += ["--" + n, s]
        yield ("flag-value", "flags", T(*zip(fn, p)), {"argv": argv})
        argv = []
        for s in p:
            argv += ["--item", s]
        yield ("list-flag-item", "flags", T(("item", L(*p))), {"argv": argv})
        yield ("exec-argument", "exec", T(("command", "cmd"), ("args", L(*p))), {"argv": ["cmd"] + list(p), "vars": {}})
        yield ("exec-env-value", "exec", T(("command", "cmd"), ("env", T(*zip(names, p)))), {"argv": ["cmd"], "vars": dict(zip(names, p))})
        yield ("exec-flag-argument", "exec", T(("command", "cmd"), ("args", L(T(*zip(fn, p))))), {"argv": ["cmd"] + [x for n, s in zip(fn, p) for x in ("--" + n, s)], "vars": {}})
    for s in strs:
        yield ("exec-command", "exec", T(("command", s)), {"argv": [s], "vars": {}})


def field_order_cases(maxfields):
    kinds = list(FIELD_KIND_VALUES)
    for n in range(1, maxfields + 1):
        for combo in itertools.product(kinds, repeat=n):
            if n == maxfields and "constraint" in combo and n > 3:
                continue        # the constraint kind in tuples of up to 3 fields
            names = ["F%d" % i for i in range(n)]
            w = T(*[(nm, FIELD_KIND_VALUES[k]) for nm, k in zip(names, combo)])
            vars_ = {nm: KIND_RENDER[k] for nm, k in zip(names, combo) if k in KIND_RENDER}
            unset = [nm for nm, k in zip(names, combo) if k not in KIND_RENDER]
            yield ("env-fields:" + ",".join(combo), "env", w, {"vars": vars_, "unset": unset})
            fn = ["f%d" % i for i in range(n)]
            w2 = T(*[(nm, FIELD_KIND_VALUES[k]) for nm, k in zip(fn, combo)])
            argv = []
            for nm, k in zip(fn, combo):
                if k in KIND_RENDER:
                    argv += ["--" + nm, KIND_RENDER[k]]
                elif k == "null":
                    argv += ["--" + nm]
                elif k == "list":
                    argv += ["--" + nm, "1", "--" + nm, "x y"]
            yield ("flag-fields:" + ",".join(combo), "flags", w2, {"argv": argv})


def list_item_order_cases(maxitems):
    """a list-valued flag whose items are of every kind in every order: scalars become one
    `--name value` pair each, NULL the bare flag, nested lists and tuples are left out — and
    leaving one out must not affect the items after it. Also through a tuple in exec args."""
    kinds = list(FIELD_KIND_VALUES)
    for n in range(1, maxitems + 1):
        for combo in itertools.product(kinds, repeat=n):
            if "constraint" in combo and n > 2:
                continue        # the constraint kind in lists of up to 2 items
            w = T(("item", L(*[FIELD_KIND_VALUES[k] for k in combo])), ("z", "last"))
            argv = []
            for k in combo:
                if k in KIND_RENDER:
                    argv += ["--item", KIND_RENDER[k]]
                elif k == "null":
                    argv += ["--item"]
            argv += ["-z", "last"]
            yield ("list-flag-items:" + ",".join(combo), "flags", w, {"argv": argv})
            yield ("exec-list-flag-items:" + ",".join(combo), "exec", T(("command", "cmd"), ("args", L(w, "end"))), {"argv": ["cmd"] + argv + ["end"], "vars": {}})


def exec_args_sequence_cases(maxitems):
    """exec args as every sequence of 1..maxitems items over a plain word and three flag tuples (a tuple may occur twice):
    each item contributes its own words exactly once, in order -- nothing of an earlier tuple is written again with a
    later one (added after a sixth-round seeded change: a line buffer shared between the tuples of one args list)"""
    items = {"word": ("w d", ["w d"]),
             "tupleA": (T(("a", "1")), ["-a", "1"]),
             "tupleB": (T(("bb", "x y"), ("n", None)), ["--bb", "x y", "-n"]),
             "tupleC": (T(("item", L("1", "2"))), ["--item", "1", "--item", "2"])}
    for n in range(1, maxitems + 1):
        for combo in itertools.product(list(items), repeat=n):
            argv = ["cmd"]
            for k in combo:
                argv += items[k][1]
            yield ("exec-args-sequence:" + ",".join(combo), "exec", T(("command", "cmd"), ("args", L(*[items[k][0] for k in combo]))), {"argv": argv, "vars": {}})


# ---------------------------------------------------------------------------------------------
# shell evaluation

def eval_batch(shell, cases_with_text, d):
    """cases_with_text: list of (idx, converter, text bytes, expected). Returns {idx: parsed}"""
    script = ["a=CANARY-EXPANDED\n"]
    for idx, conv, text, exp in cases_with_text:
        fn = os.path.join(d, "c%d.%s" % (idx, conv))
        if conv == "exec":
            t = text
            if shell == "sh":
                # dash has no pipefail; the quoting of the assignments and of the command line is under test
                t = t.replace(b"set -euo pipefail\n", b"set -eu\n", 1)
            pos = t.find(b"\nexec '")
            if pos < 0:
                t = t + b"\n__no_exec_line__\n"
            else:
                t = t[:pos] + b"\ndumpargs '" + t[pos + len(b"\nexec '"):]
            with open(fn, "wb") as f:
                f.write(t)
            names = sorted(exp.get("vars", {}))
            dump_vars = "".join("printf '%%s\\0' \"V:%s=${%s-__UNSET__}\"; " % (n, n) for n in names)
            script.append("printf '\\0CASE %d\\0'\n( dumpargs() { printf 'ARGS\\0'; for x in \"$@\"; do printf '%%s\\0' \"A:$x\"; done; %s }\n. '%s'\n) 2>/dev/null\n" % (idx, dump_vars, fn))
        elif conv == "env":
            with open(fn, "wb") as f:
                f.write(text)
            names = sorted(list(exp["vars"]) + list(exp["unset"]))
            dump_vars = "".join("printf '%%s\\0' \"V:%s=${%s-__UNSET__}\"; " % (n, n) for n in names)
            script.append("printf '\\0CASE %d\\0'\n( . '%s'\n%s\n) 2>/dev/null\n" % (idx, fn, dump_vars))
        else:
            with open(fn, "wb") as f:
                f.write(text)
            script.append("printf '\\0CASE %d\\0'\n( eval \"set -- $(cat '%s')\"\nprintf 'ARGS\\0'; for x in \"$@\"; do printf '%%s\\0' \"A:$x\"; done\n) 2>/dev/null\n" % (idx, fn))
    sp = os.path.join(d, "batch-%s.sh" % shell)
    with open(sp, "w") as f:
        f.write("".join(script))
    p = subprocess.run([shell, sp], cwd=d, stdout=subprocess.PIPE, stderr=subprocess.DEVNULL, env={"PATH": "/usr/bin:/bin", "HOME": d}, timeout=300)
    out = p.stdout
    res = {}
    parts = out.split(b"\0CASE ")
    for part in parts[1:]:
        head, _, body = part.partition(b"\0")
        try:
            idx = int(head)
        except ValueError:
            continue
        items = body.split(b"\0")
        args = None
        vars_ = {}
        for it in items:
            if it == b"ARGS":
                args = []
            elif it.startswith(b"A:") and args is not None:
                args.append(it[2:].decode("utf-8", "replace"))
            elif it.startswith(b"V:"):
                k, _, v = it[2:].partition(b"=")
                vars_[k.decode()] = v.decode("utf-8", "replace")
        res[idx] = {"argv": args, "vars": vars_}
    return res


def judge(exp, got, shell):
    if got is None:
        return "%s:no-output" % shell
    if "argv" in exp:
        if got["argv"] is None:
            return "%s:command-line-not-evaluated" % shell
        if got["argv"] != exp["argv"]:
            if len(got["argv"]) != len(exp["argv"]):
                return "%s:word-count-%s" % (shell, "more" if len(got["argv"]) > len(exp["argv"]) else "fewer")
            return "%s:word-altered" % shell
    for k, v in exp.get("vars", {}).items():
        g = got["vars"].get(k)
        if g != v:
            return "%s:variable-%s" % (shell, "missing" if g in (None, "__UNSET__") else "altered")
    for k in exp.get("unset", []):
        if got["vars"].get(k) not in ("__UNSET__",):
            return "%s:skipped-field-defined" % shell
    return None


def work(chunk):
    srv = core.worker_server()
    resps = srv.req_many([{"op": "convert", "fmt": conv, "val": w} for (_, conv, w, _) in chunk])
    hist = {}
    viol = []
    todo = []
    for idx, ((placement, conv, w, exp), rs) in enumerate(zip(chunk, resps)):
        if "ok" not in rs:
            viol.append((placement, conv, w, "converter-error", rs))
            hist[placement.split(":")[0] + ":CONVERTER-ERROR"] = hist.get(placement.split(":")[0] + ":CONVERTER-ERROR", 0) + 1
            continue
        text = rs["ok"].get("utf8")
        if text is None:
            viol.append((placement, conv, w, "non-utf8-output", rs))
            continue
        todo.append((idx, conv, text.encode("utf-8"), exp))
    d = tempfile.mkdtemp(prefix="ucgverif-c08-")
    try:
        results = {sh: eval_batch(sh, todo, d) for sh in ("sh", "bash")}
    finally:
        shutil.rmtree(d, ignore_errors=True)
    for idx, conv, text, exp in todo:
        placement = chunk[idx][0]
        bad = None
        for sh in ("sh", "bash"):
            bad = judge(exp, results[sh].get(idx), sh)
            if bad:
                viol.append((placement, conv, chunk[idx][2], bad, {"text": text.decode("utf-8", "replace")[:400], "expected": exp, "observed": results[sh].get(idx)}))
                break
        k = "%s:%s" % (placement.split(":")[0], "one-word-each" if bad is None else "VIOLATION")
        hist[k] = hist.get(k, 0) + 1
    return {"evals": len(chunk), "hist": hist, "viol": viol[:200]}


def string_features(strs):
    f = set()
    for s in strs:
        for ch, nm in (("'", "squote"), ('"', "dquote"), ("\\", "backslash"), ("$", "dollar"), ("`", "backquote"), ("\n", "newline"), ("*", "glob"), (" ", "blank")):
            if ch in s:
                f.add(nm)
    return "+".join(sorted(f)) or "plain"


def run(ctx):
    thorough = ctx.tier == "thorough"
    maxlen = 5 if thorough else 4
    maxfields = 5 if thorough else 4
    strs = strings(maxlen)
    cs = list(string_cases(strs)) + list(field_order_cases(maxfields)) + list(list_item_order_cases(4 if thorough else 3)) + list(exec_args_sequence_cases(5 if thorough else 4))
    ctx.bounds = {"string_length": maxlen, "alphabet": len(ALPHA), "strings": len(strs), "fields": maxfields, "field_kinds": len(KIND_VALUES), "shells": ["sh (dash)", "bash"]}
    ctx.rule = ("every string of length <= %d over 9 shell-significant characters plus %d further strings, in 7 placements (env value, flag value, "
                "list-flag item, exec command, exec argument, exec flag-tuple argument, exec env value; %d strings per converter call except "
                "exec command); every tuple of 1..%d fields with kinds drawn from {str, int, float, bool, NULL, list, tuple} in every order for "
                "env and flags; every list-valued flag of 1..%d items of those kinds in every order (alone and as a tuple in exec args); "
                "exec args as every sequence of 1..4 (thorough 5) items over a word and three flag tuples. "
                "Each converter output is evaluated by dash and bash. All cases distinct; non-trivial = both shells evaluated "
                "the text." % (maxlen, len(UNICODE), PACK, maxfields, 4 if thorough else 3))
    viol = []
    for part in core.pmap(work, cs, chunk=250):
        ctx.count(part["evals"], part["evals"])
        for k, v in part["hist"].items():
            ctx.outcome(k, v)
        viol.extend(part["viol"])
    ctx.sample({"placement": "env-value", "value": {"F0": "a'b", "F1": "$a `a`"}, "shell": "( . ./case.env; printf '%s\\0' \"$F0\" \"$F1\" )"})
    ctx.sample({"placement": "flag-fields:str,null,list,tuple,int", "expected_argv": ["--f0", "s p'q\"$a", "--f1", "--f2", "1", "--f2", "x y", "--f4", "7"]})
    seen = {}
    for placement, conv, w, bad, det in sorted(viol, key=lambda v: len(core.json.dumps(v[2]))):
        if ":" in placement:
            # field-order cases: minimal failing pattern = (kind that is skipped, what follows)
            kinds = placement.split(":")[1].split(",")
            first_bad = next((k for k in kinds if k in ("null", "list", "tuple")), "none")
            sig = "%s:%s:first-skipped=%s" % (placement.split(":")[0], bad, first_bad)
        else:
            strs_ = [v for _, v in w["t"]] if placement in ("env-value", "flag-value") else []
            sig = "%s:%s" % (placement, bad)
        if sig in seen:
            ctx.violations[sig]["count"] += 1
            continue
        seen[sig] = 1
        ctx.violation(sig, "%s: %s for %s" % (placement, bad, core.json.dumps(w, ensure_ascii=False)[:160]),
                      {"kind": "shell", "placement": placement, "converter": conv, "val": w, "failure": bad, "detail": det})


def replay(case):
    # rebuild the expectation from the generators
    for p, conv, w, exp in itertools.chain(string_cases(strings(5)), field_order_cases(5), list_item_order_cases(4), exec_args_sequence_cases(5)):
        if p == case["placement"] and w == case["val"]:
            core._WORKER_SERVER = None
            part = work([(p, conv, w, exp)])
            core.worker_server().close()
            core._WORKER_SERVER = None
            return not part["viol"], {"violations": part["viol"]}
    return False, {"error": "case not found in the generators"}
