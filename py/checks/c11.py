"""C11 — tokens carry exact text and location; layout does not matter.

E1: every pair (x 7 separators) and triple (x separator pairs) over the full token vocabulary and
every string-literal body of length <= 4 over an escape-significant alphabet is tokenized by the
real `ucglib::tokenizer::tokenize` and compared with the independent maximal-munch lexer in
vf/reflex.py (type, text, byte offset, line, column). Canonical statements are re-laid-out at
every gap (pairs of gaps in the thorough tier) and must parse to the identical AST.
"""
import itertools

from vf import core, reflex

LEVEL = "exploration"

KEYWORDS = ["let", "import", "include", "as", "func", "select", "map", "reduce", "filter", "module", "mod", "out",
            "constraint", "convert", "assert", "fail", "TRACE", "NULL", "in", "is", "not", "self", "env", "true", "false"]
IDENTS = ["x", "foo-bar", "a_1", "T"]
NUMS = ["0", "12", "007"]
STRS = ['"s"', '""', '"a b"', '"\\""', '"a\\\\"']
PUNCTS = [".", "..", ",", "{", "}", "(", ")", "[", "]", "+", "-", "*", "/", "%%", "%", "==", "!=", "~", "!~",
          ">=", "<=", ">", "<", "=>", "=", ";", "::", ":", "&&", "||", "|"]
VOCAB = KEYWORDS + IDENTS + NUMS + STRS + PUNCTS
SEPS = ["", " ", "\t", "\n", "\r\n", "//c\n", " // c\n", "//c\r\n", " // c\r\n"]

STR_ALPHA = ["a", "\\", '"', "n", "t", "r", "@", "é", "😀", "\n", " "]

CANON = [
    'let x = 1 ;',
    'let x = 1 + 2 * 3 ;',
    'let t = { a = 1 , b = "s" , } ;',
    'let l = [ 1 , 2 , ] ;',
    'let f = func ( a , b ) => a + b ;',
    'let r = f ( 1 , 2 ) ;',
    'let s = select ( x , 1 ) => { a = 1 , } ;',
    'let m = module { a = 1 , } => ( r ) { let r = mod . a ; } ;',
    'let c = t { a = 2 } ;',
    'let q = t . a . b ;',
    'let fm = "a @" % ( 1 ) ;',
    'let fs = "@{item}" % x ;',
    'let rg = 0 : 2 : 10 ;',
    'let mp = map ( f , l ) ;',
    'let ft = filter ( f , l ) ;',
    'let rd = reduce ( f , 0 , l ) ;',
    'let n = not true ;',
    'let i = import "x.ucg" ;',
    'let inc = include json "x.json" ;',
    'assert { ok = true , desc = "d" , } ;',
    'out json t ;',
    'let k :: 1 = 2 ;',
    'constraint p = in 1 .. 3 | "a" ;',
    'let cv = convert json t ;',
    'let e = x in t ;',
    'let y = x is "int" ;',
    'let z = fail "m" ;',
    'let tr = TRACE x ;',
    'let ca = int ( "1" ) ;',
    'let ne = a != b && c >= d || e <= f ;',
    'let md = a %% b ;',
    'let rx = a ~ b !~ c ;',
    'let g = ( 1 + 2 ) * 3 ;',
]
GAP_SEPS = ["", " ", "\t", "\n", "\r\n", "\n    ", "// c\n", " // c\n", "//\n", "// c\r\n", "//\r\n"]


def tok_view(ref_toks):
    return [(t[0], t[1]) for t in ref_toks]


def compare(text, resp):
    """Returns None if the implementation agrees with the reference lexer on `text`, else a
    (class, detail) pair."""
    try:
        ref = reflex.lex(text)
    except reflex.LexError as e:
        if "err" in resp:
            return None
        return ("accepts-invalid", "reference: %s" % e)
    if "ok" not in resp:
        return ("rejects-valid", resp.get("err") or resp)
    got = resp["ok"]
    if len(got) != len(ref) or any((g[0], g[1]) != (r[0], r[1]) for g, r in zip(got, ref)):
        return ("token-sequence", {"expected": [[r[0], r[1]] for r in ref], "observed": [[g[0], g[1]] for g in got]})
    for g, r in zip(got, ref):
        if g[4] != r[2]:
            return ("byte-offset", {"token": r[1], "expected": r[2], "observed": g[4]})
        if g[2] != r[3]:
            return ("line", {"token": r[1], "expected": r[3], "observed": g[2]})
        if g[3] != r[4] and g[3] != r[5]:
            return ("column", {"token": r[1], "expected_bytes_or_chars": [r[4], r[5]], "observed": g[3]})
    return None


def _run_texts(kind, texts, intended=None):
    srv = core.worker_server()
    resps = srv.req_many([{"op": "tokenize", "src": t} for t in texts])
    hist = {}
    viol = []
    for idx, (t, rs) in enumerate(zip(texts, resps)):
        if "panic" in rs or "abort" in rs or "hang" in rs:
            c = ("crash", rs)
        else:
            c = compare(t, rs)
        if c is None and intended is not None and "ok" in rs:
            # every separator non-empty: the sequence must be exactly the chosen vocabulary items
            want = intended[idx]
            if want is not None:
                got = [g[1] for g in rs["ok"][:-1]]
                if got != want:
                    c = ("layout-changes-tokens", {"expected": want, "observed": got})
        cls = "%s:%s" % (kind, "agree-ok" if (c is None and "ok" in rs) else ("agree-error" if c is None else c[0]))
        hist[cls] = hist.get(cls, 0) + 1
        if c is not None:
            viol.append((kind, t, c[0], c[1]))
    return hist, viol


def _tok_value(v):
    """the value the reference lexer gives to a vocabulary item standing alone"""
    r = reflex.lex(v)
    return [t[1] for t in r[:-1]]


_VAL = {v: _tok_value(v) for v in VOCAB}


def _separates(left, sep):
    """Is `sep` a real separator after token `left`? A separator that starts with a comment is not
    one after a token ending in '/' (the slashes fuse into an earlier comment start) — corrected
    after a false alarm of the first version of this check."""
    if not sep:
        return False
    if sep.startswith("/") and left.endswith("/"):
        return False
    return True


def work_pairs(chunk):
    texts, intended = [], []
    for a, b in chunk:
        for s in SEPS:
            texts.append(VOCAB[a] + s + VOCAB[b])
            intended.append(_VAL[VOCAB[a]] + _VAL[VOCAB[b]] if _separates(VOCAB[a], s) else None)
    hist, viol = _run_texts("pair", texts, intended)
    return {"evals": len(texts), "hist": hist, "viol": viol[:50], "samples": texts[3:4]}


def work_triples(chunk):
    texts, intended = [], []
    for a, b, seps in chunk:
        for c in range(len(VOCAB)):
            for s1 in seps:
                for s2 in seps:
                    texts.append(VOCAB[a] + s1 + VOCAB[b] + s2 + VOCAB[c])
                    intended.append(_VAL[VOCAB[a]] + _VAL[VOCAB[b]] + _VAL[VOCAB[c]]
                                    if (_separates(VOCAB[a], s1) and _separates(VOCAB[b], s2)) else None)
    hist, viol = _run_texts("triple", texts, intended)
    return {"evals": len(texts), "hist": hist, "viol": viol[:50], "samples": texts[7:8]}


def work_edges(chunk):
    """every vocabulary token at the very start / end of the text next to a comment or white space
    that is not followed by a line break (comment at end of input, CR alone, form feed is not white space)"""
    texts = []
    for a in chunk:
        t = VOCAB[a]
        for pre in ("", " ", "\n", "//c\n", "\t\n  "):
            for post in ("", " ", "\n", "//c", " // c", "//", "\r", "\r\n", " \t"):
                texts.append(pre + t + post)
                texts.append(pre + t + " " + t + post)
    hist, viol = _run_texts("edge", texts)
    return {"evals": len(texts), "hist": hist, "viol": viol[:50], "samples": texts[5:6]}


def work_strings(chunk):
    texts = []
    for body in chunk:
        texts.append('"' + body + '"')
        texts.append('let s = "' + body + '" ;')
    hist, viol = _run_texts("string", texts)
    return {"evals": len(texts), "hist": hist, "viol": viol[:50], "samples": texts[1:2]}


def layout_variants(tokens, ngaps):
    """Yield (text, description) for every assignment of non-default separators to `ngaps` gaps
    (default separator is one space; gap 0 is before the first token, last gap after the last)."""
    n = len(tokens)
    gaps = list(range(n + 1))
    for chosen in itertools.combinations(gaps, ngaps):
        for seps in itertools.product(GAP_SEPS, repeat=ngaps):
            if all(s == " " for s in seps):
                continue
            sep_at = {g: s for g, s in zip(chosen, seps)}
            parts = []
            for g in range(n + 1):
                default = "" if g in (0, n) else " "
                parts.append(sep_at.get(g, default))
                if g < n:
                    parts.append(tokens[g])
            yield "".join(parts), sep_at


def work_layout(chunk):
    srv = core.worker_server()
    hist = {}
    viol = []
    evals = 0
    samples = []
    for canon, ngaps in chunk:
        tokens = canon.split(" ")
        base = srv.req({"op": "parse", "src": canon})
        if "ok" not in base:
            viol.append(("layout", canon, "canonical-form-rejected", base))
            continue
        want_toks = tok_view(reflex.lex(canon))
        texts = []
        for text, sep_at in layout_variants(tokens, ngaps):
            try:
                if tok_view(reflex.lex(text)) != want_toks:
                    continue       # this layout legitimately fuses or splits tokens
            except reflex.LexError:
                continue
            texts.append(text)
        resps = srv.req_many([{"op": "parse", "src": t} for t in texts])
        for t, rs in zip(texts, resps):
            evals += 1
            if rs.get("ok") == base["ok"]:
                cls = "layout%d:same-ast" % ngaps
            else:
                cls = "layout%d:AST-DIFFERS" % ngaps
                viol.append(("layout", t, "layout-changes-ast", {"canonical": canon, "observed": rs.get("err") or rs.get("ok") or rs}))
            hist[cls] = hist.get(cls, 0) + 1
        if texts:
            samples.append(texts[len(texts) // 2])
    return {"evals": evals, "hist": hist, "viol": viol[:50], "samples": samples[:1]}


def shrink_sig(kind, text, cls, detail):
    """Signature = failure class + the abstracted minimal witness."""
    if kind == "string":
        # abstract: which special characters the body contains
        body = text
        feats = []
        if any(ord(c) > 127 for c in body):
            feats.append("non-ascii")
        if "\\" in body:
            feats.append("backslash")
        if "\n" in body:
            feats.append("newline")
        return "string:%s:%s" % (cls, "+".join(feats) or "plain")
    return "%s:%s:%s" % (kind, cls, text if len(text) < 40 else text[:40])


def run(ctx):
    thorough = ctx.tier == "thorough"
    nv = len(VOCAB)
    tri_seps = SEPS if thorough else ["", " "]
    str_len = 4
    ctx.bounds = {"vocabulary": nv, "pair_separators": len(SEPS), "triple_separators": len(tri_seps), "string_body_len": str_len,
                  "string_alphabet": len(STR_ALPHA), "canonical_statements": len(CANON), "layout_gaps": 2 if thorough else 1}
    ctx.rule = ("all ordered pairs of the %d-token vocabulary x %d separators, all ordered triples x %d^2 separator pairs, every string body "
                "of length <= %d over %d escape-significant characters (bare and inside a let), every canonical statement with every "
                "assignment of 9 separators to %s. Each text is distinct; non-trivial = the text has >= 2 tokens or a non-empty string body." % (
                    nv, len(SEPS), len(tri_seps), str_len, len(STR_ALPHA), "1 or 2 gaps" if thorough else "1 gap"))
    all_viol = []

    def absorb(part):
        ctx.count(part["evals"], part["evals"])
        for k, v in part["hist"].items():
            ctx.outcome(k, v)
        for s in part["samples"]:
            ctx.sample(s)
        all_viol.extend(part["viol"])

    pairs = [(a, b) for a in range(nv) for b in range(nv)]
    for part in core.pmap(work_pairs, pairs, chunk=150):
        absorb(part)
    triples = [(a, b, tri_seps) for a in range(nv) for b in range(nv)]
    for part in core.pmap(work_triples, triples, chunk=8 if thorough else 40):
        absorb(part)
    for part in core.pmap(work_edges, list(range(nv)), chunk=5):
        absorb(part)
    bodies = [""]
    for ln in range(1, str_len + 1):
        bodies.extend("".join(p) for p in itertools.product(STR_ALPHA, repeat=ln))
    for part in core.pmap(work_strings, bodies, chunk=800):
        absorb(part)
    lay = [(c, 1) for c in CANON]
    if thorough:
        lay += [(c, 2) for c in CANON]
    for part in core.pmap(work_layout, lay, chunk=1):
        absorb(part)

    # minimal witnesses first (shortest text)
    all_viol.sort(key=lambda v: (len(v[1]), v[1]))
    seen = 0
    for kind, text, cls, detail in all_viol:
        sig = shrink_sig(kind, text, cls, detail)
        if sig not in ctx.violations:
            seen += 1
            if seen > 200:
                break
        ctx.violation(sig, "%s on %r" % (cls, text), {"kind": kind, "src": text, "class": cls, "detail": detail})


def replay(case):
    srv = core.Server()
    try:
        if case["kind"] == "layout":
            canon = case["detail"]["canonical"]
            a = srv.req({"op": "parse", "src": canon})
            b = srv.req({"op": "parse", "src": case["src"]})
            return a.get("ok") == b.get("ok"), {"canonical": a, "variant": b}
        rs = srv.req({"op": "tokenize", "src": case["src"]})
        c = compare(case["src"], rs)
        return c is None, {"observed": rs, "compare": c}
    finally:
        srv.close()
