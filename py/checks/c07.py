"""C07 — the static checker never rejects a program that evaluates successfully.

Differential, no reference model for the verdict: every program of the C01 strata (all are
constraint-free) and a set of documented forms is evaluated without the checker
(FileBuilder::eval_string); each one that succeeds is written to a file and built with
FileBuilder::build (type checker first, then the VM). The build must succeed with the same values.
Programs on which the C01 reference interpreter fails are skipped (an evaluation that only
succeeds because the VM is laxer than the manual is charged to C01, not to the checker).
"""
import itertools
import os
import re
import shutil
import tempfile

from vf import core, refsem
from vf.refsem import pr_prog
from checks import c01
from checks.c01 import I, S, SYM, T, L, B, TRUE

LEVEL = "exploration"


def documented_forms():
    """Forms the reference documents as valid and the strata do not produce by themselves."""
    f_kv = ("func", ["k", "v"], L(SYM("k"), SYM("v")))
    f_kv_true = ("func", ["k", "v"], B("!=", SYM("k"), S("a")))
    f_c = ("func", ["c"], B("+", SYM("c"), SYM("c")))
    f_c_true = ("func", ["c"], B("!=", SYM("c"), S("a")))
    f_acc_kv = ("func", ["acc", "k", "v"], B("+", SYM("acc"), L(SYM("k"))))
    f_acc_c = ("func", ["acc", "c"], B("+", SYM("acc"), L(SYM("c"))))
    tup = T(("a", I(1)), ("b", I(2)))
    for bound in (True, False):
        def tgt(lit, name):
            return (SYM(name), [("let", name, lit)]) if bound else (lit, [])
        for nm, lit, ops in [("t", tup, [("map", f_kv), ("filter", f_kv_true), ("reduce", f_acc_kv, L())]),
                             ("s", S("ab"), [("map", f_c), ("filter", f_c_true), ("reduce", f_acc_c, L())])]:
            for op in ops:
                for fbound in (True, False):
                    e_t, pre = tgt(lit, nm)
                    pre = list(pre)
                    fe = op[1]
                    if fbound:
                        pre.append(("let", "cb", fe))
                        fe = SYM("cb")
                    expr = (op[0], fe, op[2], e_t) if op[0] == "reduce" else (op[0], fe, e_t)
                    yield ("doc", "%s-over-%s" % (op[0], "tuple" if nm == "t" else "string"), "target-bound" if bound else "target-literal",
                           "func-bound" if fbound else "func-inline"), pre + [("let", "r", expr)]
    # calls through tuple fields, copy through selectors, chained selectors
    base = [("let", "t", T(("f", ("func", ["x"], B("+", SYM("x"), I(1)))), ("in1", T(("in2", T(("in3", T(("v", I(4)), ("g", ("func", ["y"], B("*", SYM("y"), I(2)))))))))),
                          ("l", L(I(1), I(2), I(3)))))]
    yield ("doc", "call-through-field"), base + [("let", "r", ("call", B(".", SYM("t"), SYM("f")), [I(1)]))]
    yield ("doc", "call-through-deep-field"), base + [("let", "r", ("call", B(".", B(".", B(".", B(".", SYM("t"), SYM("in1")), SYM("in2")), SYM("in3")), SYM("g")), [I(3)]))]
    yield ("doc", "copy-through-selector"), base + [("let", "r", ("copy", B(".", SYM("t"), SYM("in1")), [("extra", I(1))]))]
    yield ("doc", "copy-through-deep-selector"), base + [("let", "r", ("copy", B(".", B(".", B(".", SYM("t"), SYM("in1")), SYM("in2")), SYM("in3")), [("v", I(5))]))]
    for depth in range(1, 5):
        e = SYM("t")
        for name in ["in1", "in2", "in3", "v"][:depth]:
            e = B(".", e, SYM(name))
        yield ("doc", "selector-depth-%d" % depth), base + [("let", "r", e)]
    yield ("doc", "computed-index"), base + [("let", "r", B(".", B(".", SYM("t"), SYM("l")), ("group", B("+", I(1), I(1)))))]
    yield ("doc", "computed-index-bound"), base + [("let", "i", I(1)), ("let", "r", B(".", B(".", SYM("t"), SYM("l")), ("group", B("+", SYM("i"), I(1)))))]
    yield ("doc", "quoted-selector"), base + [("let", "r", B(".", SYM("t"), S("l")))]
    yield ("doc", "heterogeneous-list-concat"), [("let", "r", B("+", L(I(1)), L(S("a"))))]
    yield ("doc", "heterogeneous-list-concat-bound"), [("let", "a", L(I(1))), ("let", "b", L(S("a"))), ("let", "r", B("+", SYM("a"), SYM("b")))]
    yield ("doc", "module-through-field"), [("let", "lib", T(("m", ("module", [("p", I(1))], None, [("let", "q", B(".", SYM("mod"), SYM("p")))])))),
                                            ("let", "r", ("copy", B(".", SYM("lib"), SYM("m")), [("p", I(2))]))]
    yield ("doc", "select-bool"), [("let", "c", TRUE), ("let", "r", ("select", SYM("c"), None, [("true", I(1)), ("false", S("no"))]))]
    yield ("doc", "func-returning-func"), [("let", "mk", ("func", ["a"], ("func", ["b"], B("+", SYM("a"), SYM("b"))))), ("let", "g", ("call", SYM("mk"), [I(1)])),
                                           ("let", "r", ("call", SYM("g"), [I(2)]))]
    yield ("doc", "in-on-bound"), [("let", "t", tup), ("let", "r", B("in", SYM("a"), SYM("t"))), ("let", "r2", B("in", S("zz"), SYM("t")))]
    # forms reported as rejected by an independent agent while it looked for a C07 seed
    yield ("doc", "param-two-fields"), [("let", "f", ("func", ["t"], B("+", B(".", SYM("t"), SYM("a")), B(".", SYM("t"), SYM("b"))))),
                                        ("let", "r", ("call", SYM("f"), [T(("a", I(1)), ("b", I(2)))]))]
    yield ("doc", "param-two-fields-reduce"), [("let", "r", ("reduce", ("func", ["acc", "p"], B("+", SYM("acc"), B("*", B(".", SYM("p"), SYM("w")), B(".", SYM("p"), SYM("h"))))),
                                                     I(0), L(T(("w", I(2)), ("h", I(3))))))]
    yield ("doc", "acc-two-fields-reduce"), [("let", "r", ("reduce", ("func", ["acc", "x"], T(("sum", B("+", B(".", SYM("acc"), SYM("sum")), SYM("x"))),
                                                                                                 ("n", B("+", B(".", SYM("acc"), SYM("n")), I(1))))),
                                                   T(("sum", I(0)), ("n", I(0))), L(I(1), I(2))))]
    yield ("doc", "map-over-indexed-nested-list"), [("let", "r", ("map", ("func", ["x"], SYM("x")), B(".", L(L(I(1), I(2)), L(I(3))), I(0))))]
    yield ("doc", "map-over-bound-nested-list"), [("let", "ll", L(L(I(1), I(2)), L(I(3)))), ("let", "r", ("map", ("func", ["x"], B("+", SYM("x"), I(1))), B(".", SYM("ll"), I(0))))]
    yield ("doc", "param-shadows-let-of-other-type"), [("let", "x", S("s")), ("let", "f", ("func", ["x"], B("+", SYM("x"), I(1)))), ("let", "r", ("call", SYM("f"), [I(1)]))]
    yield ("doc", "param-shadows-let-tuple"), [("let", "t", T(("a", I(1)))), ("let", "f", ("func", ["t"], B("+", SYM("t"), S("!")))), ("let", "r", ("call", SYM("f"), [S("s")]))]
    yield ("doc", "callback-param-shadows-let"), [("let", "x", S("s")), ("let", "r", ("map", ("func", ["x"], B("*", SYM("x"), I(2))), L(I(1), I(2))))]
    yield ("doc", "module-local-shadows-nothing"), [("let", "q", S("s")), ("let", "m", ("module", [("p", I(1))], None, [("let", "q", B("+", B(".", SYM("mod"), SYM("p")), I(1)))])),
                                                     ("let", "r", ("copy", SYM("m"), []))]
    yield ("doc", "func-used-at-two-types"), [("let", "idf", ("func", ["v"], SYM("v"))), ("let", "a", ("call", SYM("idf"), [I(1)])), ("let", "b", ("call", SYM("idf"), [S("s")])),
                                               ("let", "r", B("+", SYM("b"), S("!")))]
    yield ("doc", "tuple-param-then-other-tuple"), [("let", "g", ("func", ["t"], B(".", SYM("t"), SYM("a")))), ("let", "a", ("call", SYM("g"), [T(("a", I(1)))])),
                                                     ("let", "b", ("call", SYM("g"), [T(("a", S("s")), ("z", I(0)))]))]
    yield ("doc", "null-field-override"), [("let", "t", T(("a", ("null",)))), ("let", "r", ("copy", SYM("t"), [("a", I(1))]))]


def function_grid():
    """let f = func (p) => BODY; let r = f(ARG); (and f called twice with arguments of different
    types): every body form x every argument; the evaluation decides which are valid programs.
    Added after an independent agent reported valid programs of this kind as rejected."""
    P = SYM("p")
    one = I(1)
    bodies = [
        ("p", P), ("p+1", B("+", P, one)), ("1+p", B("+", one, P)), ("p+p", B("+", P, P)), ("p+str", B("+", P, S("s"))), ("p+list", B("+", P, L(one))),
        ("p*2", B("*", P, I(2))), ("p.a", B(".", P, SYM("a"))), ("p.a+p.b", B("+", B(".", P, SYM("a")), B(".", P, SYM("b")))), ("p.a.b", B(".", B(".", P, SYM("a")), SYM("b"))),
        ("p.0", B(".", P, I(0))), ("p.0+p.1", B("+", B(".", P, I(0)), B(".", P, I(1)))), ("p.quoted", B(".", P, S("a"))),
        ("[p,1]", L(P, one)), ("{x=p}", T(("x", P))), ("{x=p}.x", B(".", T(("x", P)), SYM("x"))), ("p{y=1}", ("copy", P, [("y", one)])), ("p{a=2}", ("copy", P, [("a", I(2))])),
        ("select-p", ("select", P, I(0), [("a", one), ("s", I(2))])), ("select-default-p", ("select", S("z"), P, [("a", one)])),
        ("select-p==1", ("select", B("==", P, one), I(0), [("true", one)])), ("format-p", ("format", "<@>", [P])), ("formatx-p", ("formatx", ["<", SYM("item"), ">"], P)),
        ("p(1)", ("call", P, [one])), ("map-p", ("map", P, L(one, I(2)))), ("map-closure", ("map", ("func", ["x"], B("+", SYM("x"), P)), L(one))),
        ("filter-closure", ("filter", ("func", ["x"], B("==", SYM("x"), P)), L(one, I(2)))), ("reduce-closure", ("reduce", ("func", ["a", "x"], B("+", B("+", SYM("a"), SYM("x")), P)), I(0), L(one))),
        ("map-over-p", ("map", ("func", ["x"], SYM("x")), P)), ("reduce-over-p", ("reduce", ("func", ["a", "x"], B("+", SYM("a"), L(SYM("x")))), L(), P)),
        ("p-in-list", B("in", P, L(one, I(2)))), ("str-in-p", B("in", S("a"), P)), ("p-is-int", B("is", P, S("int"))), ("not-p", ("not", P)), ("p&&true", B("&&", P, TRUE)),
        ("p==1", B("==", P, one)), ("p==NULL", B("==", P, ("null",))), ("p<2", B("<", P, I(2))), ("int(p)", ("cast", "int", P)), ("str(p)", ("cast", "str", P)),
        ("p:3", ("range", P, None, I(3))), ("0:p", ("range", I(0), None, P)), ("p.a(1)", ("call", B(".", P, SYM("a")), [one])), ("p.a{z=1}", ("copy", B(".", P, SYM("a")), [("z", one)])),
    ]
    args = [("int", one), ("float", ("float", 1.5)), ("str", S("s")), ("str-a", S("a")), ("bool", TRUE), ("null", ("null",)), ("list", L(one, I(2))), ("strlist", L(S("a"))),
            ("tuple-a", T(("a", one))), ("tuple-ab", T(("a", one), ("b", I(2)))), ("tuple-nested", T(("a", T(("b", one))))), ("func", ("func", ["x"], B("+", SYM("x"), one))),
            ("tuple-func", T(("a", ("func", ["x"], SYM("x")))))]
    for bn, body in bodies:
        for an, arg in args:
            yield ("doc", "fgrid:%s(%s)" % (bn, an)), [("let", "f", ("func", ["p"], body)), ("let", "r", ("call", SYM("f"), [arg]))]
    for bn, body in bodies:
        for (an1, a1), (an2, a2) in itertools.permutations(args, 2):
            yield ("doc", "fgrid2:%s(%s;%s)" % (bn, an1, an2)), [("let", "f", ("func", ["p"], body)), ("let", "r1", ("call", SYM("f"), [a1])), ("let", "r2", ("call", SYM("f"), [a2]))]


def producer_consumer_grid():
    """Every way of producing a value whose static shape is indirect (a select's default or arm, a
    reduce whose callback changes the accumulator's type, a call, a selection out of a filtered /
    mapped / copied container, a select inside a select) x every construct that consumes a value.
    The evaluation decides which combinations are valid programs. Added after the thorough tier
    found the checker typing a select without its default and a reduce as its initial accumulator."""
    one = I(1)
    X = SYM("x")
    idf = ("func", ["x"], X)
    values = [("int", one, ("float", 0.5)), ("str", S("s"), one), ("bool", TRUE, one), ("list", L(one, I(2)), one), ("tuple", T(("a", one)), one),
              ("strlist", L(S("a")), S("s"))]
    def producers(v, other):
        yield "literal", v
        yield "select-default", ("select", S("z"), v, [("a", other)])
        yield "select-arm", ("select", S("a"), other, [("a", v)])
        yield "select-arm-no-default", ("select", S("a"), None, [("a", v), ("b", other)])
        yield "reduce-changing", ("reduce", ("func", ["acc", "x"], v), other, L(one))
        yield "reduce-empty", ("reduce", ("func", ["acc", "x"], other), v, L())
        yield "call", ("call", SYM("ident"), [v])
        yield "tuple-field", B(".", T(("f", v)), SYM("f"))
        yield "list-element", B(".", L(v), I(0))
        yield "nested-select", ("select", S("a"), None, [("a", ("select", S("z"), v, [("b", other)]))])
        yield "filtered-tuple-field", B(".", ("filter", ("func", ["k", "v"], TRUE), T(("f", v))), SYM("f"))
        yield "mapped-list-element", B(".", ("map", idf, L(v)), I(0))
        yield "copied-field", B(".", ("copy", SYM("base"), [("f", v)]), SYM("f"))
    def consumers(e):
        yield ".a", B(".", e, SYM("a"))
        yield ".0", B(".", e, I(0))
        yield "&&true", B("&&", e, TRUE)
        yield "true&&", B("&&", TRUE, e)
        yield "false||", B("||", ("bool", False), e)
        yield "not", ("not", e)
        yield "+1", B("+", e, one)
        yield "1+", B("+", one, e)
        yield "+str", B("+", e, S("t"))
        yield "+list", B("+", e, L(I(3)))
        yield "==self", B("==", e, e)
        yield "map", ("map", idf, e)
        yield "filter", ("filter", ("func", ["x"], TRUE), e)
        yield "reduce", ("reduce", ("func", ["acc", "x"], SYM("acc")), I(0), e)
        yield "call-arg", ("call", SYM("ident"), [e])
        yield "select-on", ("select", e, I(0), [("s", one), ("true", I(2))])
        yield "int()", ("cast", "int", e)
        yield "str()", ("cast", "str", e)
        yield "range-end", ("range", I(0), None, e)
        yield "format-arg", ("format", "<@>", [e])
        yield "in", B("in", one, e)
        yield "list-of", L(e, e)
        yield "field-of", B(".", T(("k", e)), SYM("k"))
        yield "bare", e
    pre = [("let", "ident", idf), ("let", "base", T(("g", I(0))))]
    for vn, v, other in values:
        for pn, pe in producers(v, other):
            for cn, ce in consumers(pe):
                yield ("doc", "pc:%s:%s:%s" % (vn, pn, cn)), pre + [("let", "r", ce)]
            # and bound to a name first
            for cn, ce in consumers(SYM("v")):
                yield ("doc", "pcb:%s:%s:%s" % (vn, pn, cn)), pre + [("let", "v", pe), ("let", "r", ce)]


def function_result_use_grid():
    """let f = func (p) => BODY; let r = f(ARG); let u = USE(r): what a function returns is used for
    what it is. Bodies hand the argument to map / filter / copy / select, narrow it in one select
    arm only, or guard an optional field. (Reported by a seeding agent on the unchanged tree.)"""
    P = SYM("p")
    one = I(1)
    kv = ("func", ["k", "v"], L(SYM("k"), SYM("v")))
    bodies = [
        ("filter-kv-over-p", ("filter", ("func", ["k", "v"], B(">", SYM("v"), one)), P)),
        ("map-kv-over-p", ("map", kv, P)),
        ("map-c-over-p", ("map", ("func", ["c"], B("+", SYM("c"), SYM("c"))), P)),
        ("filter-c-over-p", ("filter", ("func", ["c"], B("!=", SYM("c"), S("a"))), P)),
        ("map-x-over-p", ("map", ("func", ["x"], B("+", SYM("x"), one)), P)),
        ("p{a=2}", ("copy", P, [("a", I(2))])),
        ("p{z=1}", ("copy", P, [("z", one)])),
        ("narrowed-per-arm", ("select", B("is", P, S("str")), I(0), [("true", B("+", P, S("s"))), ("false", B("+", P, one))])),
        ("narrowed-per-arm-tuple", ("select", B("is", P, S("tuple")), I(0), [("true", B(".", P, SYM("a"))), ("false", B("+", P, one))])),
        ("optional-field-guard", ("select", B("in", S("opt"), P), I(0), [("true", B(".", P, SYM("opt")))])),
        ("optional-field-guard-sym", ("select", B("in", SYM("opt"), P), I(0), [("true", B(".", P, SYM("opt")))])),
        ("p", P), ("[p]", L(P)), ("{x=p}", T(("x", P))),
    ]
    mod_out = ("module", [("a", one)], B("+", B(".", SYM("mod"), SYM("a")), one), [("let", "q", one)])
    mod_plain = ("module", [("a", one)], None, [("let", "v", B(".", SYM("mod"), SYM("a")))])
    args = [("int", one), ("str", S("ab")), ("list", L(one, I(2))), ("tuple-ab", T(("a", one), ("b", I(2)))), ("tuple-opt", T(("opt", I(5)))), ("tuple-other", T(("other", one))),
            ("module-with-out", mod_out), ("module", mod_plain)]
    R = SYM("r")
    uses = [("bare", R), (".a", B(".", R, SYM("a"))), (".b+1", B("+", B(".", R, SYM("b")), one)), (".0", B(".", R, I(0))), ("+1", B("+", R, one)), ("+str", B("+", R, S("x"))),
            (".v", B(".", R, SYM("v"))), (".x", B(".", R, SYM("x")))]
    for bn, body in bodies:
        for an, arg in args:
            for un, use in uses:
                yield ("doc", "fuse:%s(%s):%s" % (bn, an, un)), [("let", "f", ("func", ["p"], body)), ("let", "r", ("call", SYM("f"), [arg])), ("let", "u", use)]


def copy_override_grid():
    """base{f = NEW}.f...: a copy that replaces a field with a value of another (wider) shape, then a
    selection that only the new value supports; also through self."""
    one = I(1)
    olds = [("empty-tuple", T()), ("tuple-a", T(("a", one))), ("int", one), ("list", L(one)), ("null", ("null",))]
    news = [("tuple-ab", T(("a", one), ("b", I(2))), [B(".", SYM("n"), SYM("b")), B("+", B(".", SYM("n"), SYM("a")), one)]),
            ("tuple-nested", T(("a", T(("c", one)))), [B(".", B(".", SYM("n"), SYM("a")), SYM("c"))]),
            ("list-2", L(one, I(2)), [B("+", B(".", SYM("n"), I(1)), one)]),
            ("str", S("s"), [B("+", SYM("n"), S("x"))]),
            ("self-extended", ("copy", B(".", SYM("self"), SYM("f")), [("e", I(2))]), [B(".", SYM("n"), SYM("e"))])]
    for on, old in olds:
        for nn, new, uses in news:
            if nn == "self-extended" and on not in ("empty-tuple", "tuple-a"):
                continue
            for i, use in enumerate(uses):
                yield ("doc", "copyover:%s->%s:%d" % (on, nn, i)), [("let", "base", T(("f", old), ("g", one))), ("let", "d", ("copy", SYM("base"), [("f", new)])),
                                                                    ("let", "n", B(".", SYM("d"), SYM("f"))), ("let", "u", use)]
                yield ("doc", "copyover-inline:%s->%s:%d" % (on, nn, i)), [("let", "base", T(("f", old), ("g", one))),
                                                                           ("let", "n", B(".", ("copy", SYM("base"), [("f", new)]), SYM("f"))), ("let", "u", use)]
                if nn != "self-extended":
                    # the copy is one arm of a select whose other arm (or default) is the base itself
                    for key in ("prod", "dev"):
                        if key == "dev" and on != "tuple-a":
                            continue        # the base is chosen: only uses that the base supports too
                        yield ("doc", "copyover-select:%s->%s:%d:%s" % (on, nn, i, key)), [
                            ("let", "base", T(("f", old), ("g", one))), ("let", "mode", S(key)),
                            ("let", "cfg", ("select", SYM("mode"), SYM("base"), [("prod", ("copy", SYM("base"), [("f", new)]))])),
                            ("let", "n", B(".", SYM("cfg"), SYM("f"))), ("let", "u", use if key == "prod" else B("+", B(".", SYM("n"), SYM("a")), one))]


def select_arm_grid():
    """A select whose arms have shapes that are alike but not the same — functions of one arity
    that return different things, a tuple and a wider tuple, a list and a wider list — x the arm
    chosen x what is done with the result. Added after a seeding agent reported that the checker
    keeps only the first of two arms it takes for equivalent."""
    one = I(1)
    V = SYM("v")
    funcs = [("list", ("func", ["v"], L(V, V))), ("pair", ("func", ["v"], T(("fst", V), ("snd", V)))), ("incr", ("func", ["v"], B("+", V, one))),
             ("text", ("func", ["v"], S("s"))), ("same", ("func", ["v"], V))]
    R = SYM("r")
    uses = [("bare", R), (".fst", B(".", R, SYM("fst"))), (".0", B(".", R, I(0))), ("+1", B("+", R, one)), ("+str", B("+", R, S("x")))]
    for pn in (["a", "b"], ["name", "count"], ["z", "a"]):
      first = ("func", pn, SYM(pn[0]))
      second = ("func", pn, SYM(pn[1]))
      wrap = ("func", pn, T(("n", SYM(pn[0])), ("c", SYM(pn[1]))))
      for key in ("x", "y"):
        yield ("doc", "selarm:func2wrap:%s:%s" % (",".join(pn), key)), [("let", "mode", S(key)), ("let", "pick", ("select", SYM("mode"), None, [("x", wrap), ("y", first)])),
                                                                     ("let", "r", ("call", SYM("pick"), [S("s"), I(1)])), ("let", "u", B("+", B(".", SYM("r"), SYM("c")), one) if key == "x" else B("+", SYM("r"), S("t")))]
      for key in ("x", "y", "z"):
        for un, use in uses:
            yield ("doc", "selarm:func2:%s:%s:%s" % (",".join(pn), key, un)), [("let", "mode", S(key)), ("let", "pick", ("select", SYM("mode"), first, [("x", first), ("y", second)])),
                                                            ("let", "r", ("call", SYM("pick"), [I(1), S("s")])), ("let", "u", use)]
            yield ("doc", "selarm:func2r:%s:%s:%s" % (",".join(pn), key, un)), [("let", "mode", S(key)), ("let", "pick", ("select", SYM("mode"), second, [("x", second), ("y", first)])),
                                                             ("let", "r", ("call", SYM("pick"), [I(1), S("s")])), ("let", "u", use)]
    # a module picked by select and instantiated
    m1 = ("module", [("a", one)], None, [("let", "v", B(".", SYM("mod"), SYM("a")))])
    m2 = ("module", [("a", one)], None, [("let", "v", B("+", B(".", SYM("mod"), SYM("a")), one))])
    m3 = ("module", [("a", one)], B("+", B(".", SYM("mod"), SYM("a")), one), [("let", "q", one)])
    for key in ("one", "two", "zz"):
        for mb, use in ((m2, B("+", B(".", SYM("i"), SYM("v")), one)), (m3, B("+", SYM("i"), one))):
            yield ("doc", "selarm:module:%s" % key), [("let", "m1", m1 if mb is m2 else m3), ("let", "m2", mb), ("let", "m", ("select", S(key), SYM("m1"), [("one", SYM("m1")), ("two", SYM("m2"))])),
                                                     ("let", "i", ("copy", SYM("m"), [("a", I(5))])), ("let", "x", use)]
    for (n1, f1), (n2, f2) in itertools.permutations(funcs, 2):
        for key, default in (("a", None), ("b", None), ("z", "first"), ("z", "second")):
            arms = [("a", f1), ("b", f2)]
            d = None
            if default == "first":
                d, arms = f1, [("b", f2)]
            elif default == "second":
                d, arms = f2, [("a", f1)]
            sel = ("select", SYM("mode"), d, arms)
            for un, use in uses:
                yield ("doc", "selarm:func:%s/%s:%s%s:%s" % (n1, n2, key, "-default-" + default if default else "", un)), [
                    ("let", "mode", S(key)), ("let", "render", sel), ("let", "r", ("call", SYM("render"), [I(3)])), ("let", "u", use)]
    values = [("tuple-a", T(("a", one))), ("tuple-ab", T(("a", one), ("b", I(2)))), ("tuple-b", T(("b", I(2)))), ("tuple-a-str", T(("a", S("s")))),
              ("list-int", L(one)), ("list-int-str", L(one, S("s"))), ("list-str", L(S("s"))), ("list-empty", L())]
    vuses = [("bare", R), (".a", B(".", R, SYM("a"))), (".b", B(".", R, SYM("b"))), (".0", B(".", R, I(0))), (".1", B(".", R, I(1))), (".a+1", B("+", B(".", R, SYM("a")), one)),
             (".0+1", B("+", B(".", R, I(0)), one)), ("map", ("map", ("func", ["x"], SYM("x")), R))]
    for (n1, v1), (n2, v2) in itertools.permutations(values, 2):
        for key in ("a", "b"):
            for un, use in vuses:
                yield ("doc", "selarm:value:%s/%s:%s:%s" % (n1, n2, key, un)), [
                    ("let", "mode", S(key)), ("let", "r", ("select", SYM("mode"), None, [("a", v1), ("b", v2)])), ("let", "u", use)]


def callback_name_grid():
    """The parameter of a map / filter / reduce callback carries the name of an outer binding that
    is used afterwards: the callback's parameter must not change what the checker knows about the
    outer name. (Reported by a seeding agent on the unchanged tree.)"""
    one = I(1)
    for outer_n, outer in (("str", S("str")), ("int", I(5)), ("list", L(S("a"))), ("tuple", T(("a", one)))):
        after = {"str": B("+", SYM("item"), S("x")), "int": B("+", SYM("item"), one), "list": B("+", SYM("item"), L(S("b"))), "tuple": B(".", SYM("item"), SYM("a"))}[outer_n]
        ops = [("map-id", ("map", ("func", ["item"], SYM("item")), L(one, I(2))), B("+", B(".", SYM("l"), I(0)), one)),
               ("map-incr", ("map", ("func", ["item"], B("+", SYM("item"), one)), L(one, I(2))), B("+", B(".", SYM("l"), I(0)), one)),
               ("map-wrap", ("map", ("func", ["item"], L(SYM("item"))), L(one, I(2))), B(".", B(".", SYM("l"), I(0)), I(0))),
               ("filter", ("filter", ("func", ["item"], B(">", SYM("item"), one)), L(one, I(2))), B("+", B(".", SYM("l"), I(0)), one)),
               ("reduce-item", ("reduce", ("func", ["acc", "item"], B("+", SYM("acc"), SYM("item"))), I(0), L(one, I(2))), B("+", SYM("l"), one)),
               ("reduce-acc", ("reduce", ("func", ["item", "x"], B("+", SYM("item"), SYM("x"))), I(0), L(one, I(2))), B("+", SYM("l"), one)),
               ("map-tuple", ("map", ("func", ["k", "item"], L(SYM("k"), SYM("item"))), T(("q", one))), SYM("l")),
               ("map-string", ("map", ("func", ["item"], SYM("item")), S("ab")), B("+", SYM("l"), S("!")))]
        for on, op, use in ops:
            yield ("doc", "cbname:%s:%s" % (outer_n, on)), [("let", "item", outer), ("let", "l", op), ("let", "y", use), ("let", "z", after)]
            yield ("doc", "cbname-first:%s:%s" % (outer_n, on)), [("let", "item", outer), ("let", "z0", after), ("let", "l", op), ("let", "y", use), ("let", "z", after)]


def callee_name_grid():
    """An outer binding carries the name of a function's parameter; the function hands the parameter
    back bare, in a list, in a tuple, nested; the result is used for what it is and the outer binding
    afterwards. Added after a seeded change (holes of a callee not bound inside tuples) was missed."""
    one = I(1)
    P = SYM("p")
    rets = [("bare", P, SYM("r")), ("list", L(P), B(".", SYM("r"), I(0))), ("tuple", T(("v", P)), B(".", SYM("r"), SYM("v"))),
            ("nested-tuple", T(("w", T(("v", P)))), B(".", B(".", SYM("r"), SYM("w")), SYM("v"))), ("tuple-in-list", L(T(("v", P))), B(".", B(".", SYM("r"), I(0)), SYM("v"))),
            ("select-arm", ("select", S("a"), None, [("a", T(("v", P)))]), B(".", SYM("r"), SYM("v"))),
            # the parameter leaves the function inside a function or a module that is called / instantiated later
            ("returned-function", ("func", [], P), ("call", SYM("r"), [])),
            ("returned-function-with-parameter", ("func", ["x"], B("+", P, SYM("x"))), ("call", SYM("r"), [one])),
            ("returned-function-same-parameter-name", ("func", ["p"], B("+", P, one)), ("call", SYM("r"), [one])),
            ("function-in-tuple", T(("g", ("func", [], P))), ("call", B(".", SYM("r"), SYM("g")), [])),
            ("function-in-list", L(("func", [], P)), ("call", B(".", ("group", B(".", SYM("r"), I(0))), SYM("zz")), [])) if False else
            ("function-returning-tuple", ("func", [], T(("v", P))), B(".", ("group", ("call", SYM("r"), [])), SYM("v"))),
            # the returned function's own parameter carries the outer parameter's name and is given a value of another type
            ("returned-function-same-parameter-name-other-type", ("func", ["p"], T(("v", P))), B(".", B(".", ("group", ("call", SYM("r"), [T(("name", one))])), SYM("v")), SYM("name"))),
            ("returned-function-same-parameter-name-field", ("func", ["p"], B(".", P, SYM("n"))), ("call", SYM("r"), [T(("n", one))])),
            ("returned-module", ("module", [("v", P)], B(".", SYM("mod"), SYM("v")), [("let", "x", one)]), ("copy", SYM("r"), [])),
            ("returned-module-implicit-result", ("module", [("v", P)], None, [("let", "w", B(".", SYM("mod"), SYM("v")))]), B(".", ("group", ("copy", SYM("r"), [])), SYM("w")))]
    for outer_n, outer, after in (("str", S("str"), B("+", P, S("x"))), ("list", L(S("a")), B("+", P, L(S("b")))), ("tuple", T(("a", one)), B(".", P, SYM("a")))):
        for rn, ret, sel in rets:
            for names in (["p"], ["q", "p"], ["p", "q"]):
                args = [I(7) if n == "p" else S("other") for n in names]
                yield ("doc", "calleename:%s:%s:%s" % (outer_n, rn, ",".join(names))), [
                    ("let", "p", outer), ("let", "f", ("func", names, ret)), ("let", "r", ("call", SYM("f"), args)), ("let", "y", B("+", sel, one)), ("let", "z", after)]


def field_selection_grid():
    """1..3 fields selected from a value whose shape the checker learns from use (a function parameter) or knows
    (a let-bound tuple), each by a bare or a quoted name, in one expression and over two statements. Added after two
    seeded changes (the quoted form of the second selection no longer recovered) were missed."""
    one = I(1)
    tup = T(("host", S("h")), ("port", I(80)), ("path", S("/")))
    names = ["host", "port", "path"]

    def sel(base, n, quoted):
        return B(".", base, S(n) if quoted else SYM(n))

    def render(base, picks):
        e = None
        for n, q in picks:
            x = sel(base, n, q)
            x = x if n != "port" else ("cast", "str", x)
            e = x if e is None else B("+", e, x)
        return e
    for k in (1, 2, 3):
        for order in itertools.permutations(names, k):
            for quoting in itertools.product((False, True), repeat=k):
                picks = list(zip(order, quoting))
                tag = ",".join(("q:" if q else "b:") + n for n, q in picks)
                yield ("doc", "fieldsel:parameter:%s" % tag), [("let", "t", tup), ("let", "f", ("func", ["p"], render(SYM("p"), picks))), ("let", "r", ("call", SYM("f"), [SYM("t")]))]
                yield ("doc", "fieldsel:let-bound:%s" % tag), [("let", "t", tup), ("let", "r", render(SYM("t"), picks))]
                yield ("doc", "fieldsel:callback:%s" % tag), [("let", "t", tup), ("let", "r", ("map", ("func", ["p"], render(SYM("p"), picks)), L(SYM("t"))))]
                if k >= 2:
                    # the selections spread over two statements of a module body
                    yield ("doc", "fieldsel:module-parameter:%s" % tag), [
                        ("let", "m", ("module", [("p", tup)], None, [("let", "a", render(B(".", SYM("mod"), SYM("p")), picks[:1])), ("let", "b", render(B(".", SYM("mod"), SYM("p")), picks[1:]))])),
                        ("let", "r", ("copy", SYM("m"), []))]


def nested_module_grid():
    """A module defined inside a module body, and what the outer body binds before / after it: the names local to
    either body must not reach the file's own bindings of the same name (which are used afterwards). Added after a
    seeded change (the checker's nesting counter reset instead of decremented on leaving a module) was missed."""
    one = I(1)
    inner = ("module", [("a", one)], None, [("let", "v", B("+", B(".", SYM("mod"), SYM("a")), one))])
    inner_named = ("module", [("a", one)], None, [("let", "port", S("inner"))])
    for outer_n, outer, after in (("int", I(8080), B("+", SYM("port"), one)), ("str", S("s"), B("+", SYM("port"), S("x"))), ("list", L(one), B("+", SYM("port"), L(I(2)))),
                                  ("tuple", T(("a", one)), B(".", SYM("port"), SYM("a")))):
        for local_n, local in (("str", S("http")), ("int", I(1)), ("tuple", T(("z", one))), ("list", L(S("q")))):
            if local_n == outer_n:
                continue
            for inn_n, inn in (("plain", inner), ("binds-the-name-too", inner_named)):
                bodies = {
                    "local-after-inner-module": [("let", "inner", inn), ("let", "port", local)],
                    "local-before-inner-module": [("let", "port", local), ("let", "inner", inn)],
                    "local-between-two-inner-modules": [("let", "inner", inn), ("let", "port", local), ("let", "inner2", inn)],
                    "inner-module-instantiated-then-local": [("let", "inner", inn), ("let", "i", ("copy", SYM("inner"), [])), ("let", "port", local)],
                }
                for bn, body in bodies.items():
                    m = ("module", [("q", one)], None, body)
                    yield ("doc", "nestedmod:%s:%s:%s:%s" % (outer_n, local_n, inn_n, bn)), [("let", "port", outer), ("let", "outer", m), ("let", "r", after)]
                    yield ("doc", "nestedmod-used:%s:%s:%s:%s" % (outer_n, local_n, inn_n, bn)), [("let", "port", outer), ("let", "outer", m), ("let", "o", ("copy", SYM("outer"), [])), ("let", "r", after)]
    # three levels
    deep = ("module", [("q", one)], None, [("let", "mid", ("module", [("q", one)], None, [("let", "inner", inner), ("let", "port", S("mid"))])), ("let", "port", L(one))])
    yield ("doc", "nestedmod:three-levels"), [("let", "port", I(8080)), ("let", "outer", deep), ("let", "r", B("+", SYM("port"), one))]


def nested_call_grid():
    """let g = func (Q) => GBODY; let f = func (p) => FBODY; let r = f(ARG); where FBODY calls g and Q
    is either the same name as f's parameter or a different one. Added after the thorough C17 run
    showed the checker confusing the two functions' parameters when they share a name."""
    one = I(1)
    for q in ("p", "q"):
        Q = SYM(q)
        P = SYM("p")
        gbodies = [("Q", Q), ("Q+1", B("+", Q, one)), ("Q+str", B("+", Q, S("s"))), ("[Q]", L(Q)), ("{x=Q}", T(("x", Q))), ("Q.a", B(".", Q, SYM("a"))),
                   ("Q.0", B(".", Q, I(0))), ("Q==1", B("==", Q, one)), ("str(Q)", ("cast", "str", Q)), ("select-Q", ("select", S("z"), Q, [("a", one)]))]
        G = lambda *a: ("call", SYM("g"), list(a))
        fbodies = [("g(p)", G(P)), ("g(str)+str", B("+", G(S("s")), S("x"))), ("g(1)+1", B("+", G(one), one)), ("g(1)+p", B("+", G(one), P)), ("g(p)+1", B("+", G(P), one)),
                   ("p+g(1)", B("+", P, G(one))), ("[g(p),p]", L(G(P), P)), ("g(g(p))", G(G(P))), ("g([p])", G(L(P))), ("g({a=p})", G(T(("a", P)))),
                   ("g(p).x", B(".", G(P), SYM("x"))), ("g(p).0", B(".", G(P), I(0))), ("g(str)&&p", B("&&", B("==", G(S("s")), S("s")), P)),
                   ("{a=g(1),b=p}", T(("a", G(one)), ("b", P))), ("g(p)+g(1)", B("+", G(P), G(one))), ("g(tuple).a+p", B("+", B(".", G(T(("a", one))), SYM("a")), P))]
        args = [("int", one), ("str", S("s")), ("bool", TRUE), ("list", L(one, I(2))), ("strlist", L(S("a"))), ("tuple-a", T(("a", one))), ("tuple-x", T(("x", one))), ("null", ("null",))]
        for gn, gb in gbodies:
            for fn, fb in fbodies:
                for an, arg in args:
                    yield ("doc", "nested:%s:%s:%s(%s)" % (q, gn, fn, an)), [("let", "g", ("func", [q], gb)), ("let", "f", ("func", ["p"], fb)), ("let", "r", ("call", SYM("f"), [arg]))]
    # two parameters handed on in the other order, under the same and under different names
    for names in (["a", "b"], ["b", "a"], ["x", "y"]):
        for body in (B("-", SYM(names[0]), SYM(names[1])), B("+", SYM(names[0]), ("cast", "str", SYM(names[1]))), L(SYM(names[0]), SYM(names[1]))):
            for a1, a2 in ((one, I(2)), (S("s"), one), (L(one), L(S("t")))):
                yield ("doc", "nested2:%s" % ",".join(names)), [("let", "g", ("func", names, body)), ("let", "f", ("func", ["b", "a"], ("call", SYM("g"), [SYM("b"), SYM("a")]))),
                                                              ("let", "r", ("call", SYM("f"), [a1, a2]))]


RAW_FORMS = [
    ("include-str-concat", 'let r = "#!" + include str "./c07data.txt";'),
    ("include-str-cast", 'let r = int(include str "./c07data.txt") + 1;'),
    ("include-b64-concat", 'let r = "b:" + include b64 "./c07data.txt";'),
    ("include-json-bound", 'let j = include json "./c07data.json";\nlet r = j;'),
    ("include-json-field", 'let j = include json "./c07data.json";\nlet r = j.v;'),
    ("include-json-field-inline", 'let r = (include json "./c07data.json").v;'),
    ("include-json-arithmetic", 'let r = 1 + include json "./c07num.json";'),
    ("include-json-list-index", 'let r = (include json "./c07list.json").0;'),
    ("include-yaml-field", 'let y = include yaml "./c07data.yaml";\nlet r = y.v + 1;'),
    ("include-toml-field", 'let t = include toml "./c07data.toml";\nlet r = t.v;'),
]
RAW_FORMS += [
    # an imported file that imports its neighbour, while a file of that name and another shape sits next to the importer
    ("import-nested-with-decoy", 'let a = import "./c07lib/a.ucg";\nlet r = a.v;'),
    ("import-nested-with-decoy-inline", 'let r = (import "./c07lib/a.ucg").v;'),
    ("import-nested-missing-field-in-decoy", 'let a = import "./c07lib/c.ucg";\nlet r = a.v;'),
    ("select-between-imports", 'let cfg = select ("prod", import "./c07lib/b.ucg") => {prod = import "./c07lib/d.ucg"};\nlet x = cfg.only_here + 1;'),
    ("select-between-imports-default", 'let cfg = select ("zz", import "./c07lib/b.ucg") => {prod = import "./c07lib/d.ucg"};\nlet x = cfg.val + 1;'),
    ("std-import-with-unrelated-std-directory", 'let lists = import "std/lists.ucg";\nlet len = lists.len;\nlet n = len([1, 2]) + 1;'),
    ("select-arm-any-after-narrowed", 'let k = "b";\nlet t = {p = 1, q = 2};\nlet inner = select (k, {a = 1}) => {a = {a = 2}};\n'
                                      'let v = select (k, NULL) => {a = inner, b = map(func (n, x) => [n, x], t)};\nlet w = v.p + 1;'),
]
RAW_FORMS += [
    # reported by the fourth-round agent on the unchanged tree: values whose static shape is narrower than what the VM accepts
    ("lazy-select-touches-other-fields", 'let f = func (arg) => select (arg.kind, 0) => {x = arg.a, y = arg.b};\nlet v = f({kind = "x", a = 1, other = 2}) + 1;'),
    ("module-list-parameter-overridden-with-other-elements", 'let m = module {l = [1]} => (r) {\n    let r = mod.l;\n};\nlet v = m{l = ["a"]};'),
    ("module-tuple-parameter-overridden-with-other-fields", 'let m = module {t = {a = 1}} => (r) {\n    let r = mod.t;\n};\nlet w = m{t = {b = 2}};'),
    ("module-out-expression-selects-field-the-default-lacks", 'let m = module {cfg = {a = 1}} => (mod.cfg.b) {\n    let unused = 1;\n};\nlet v = m{cfg = {a = 1, b = 2}} + 1;'),
    ("import-as-function-argument", 'let lib = import "./c07lib/b.ucg";\nlet f = func (c) => c.val + 1;\nlet v = f(lib);'),
    ("import-as-module-parameter", 'let lib = import "./c07lib/b.ucg";\nlet m = module {cfg = {val = 1}} => (r) {\n    let r = mod.cfg.val + 1;\n};\nlet v = m{cfg = lib};'),
    ("copy-of-included-tuple-keeps-included-fields", 'let base = include json "./c07data.json";\nlet c = base{port = 1};\nlet v = c.v + 1;'),
    ("reduce-callback-widens-the-accumulator", 'let r = reduce(func (acc, x) => {count = acc.count + 1, last = x}, {count = 0}, [1, 2]);\nlet v = r.last + 1;'),
    ("reduce-callback-widens-the-accumulator-over-tuple", 'let r = reduce(func (acc, k, x) => {count = acc.count + 1, last = x}, {count = 0}, {p = 1});\nlet v = r.last + 1;'),
]
RAW_FORMS += [
    # fifth-round reports
    ("functions-of-unlike-parameter-names-joined-in-a-list", 'let a = {x = 1};\nlet fs = [func (a) => a] + [func (b) => b + 1];\nlet r = a.x + 1;'),
    ("functions-of-unlike-parameter-names-in-select-arms", 'let a = {x = 1};\nlet f = select ("k", func (a) => a) => {k = func (b) => b + 1};\nlet r = a.x + f(1);'),
    ("fail-message-out-of-a-select-in-an-unused-default", 'let msg = select ("a", "d") => {a = "m"};\nlet r = select ("x", fail msg) => {x = 1};\nlet u = r + 1;'),
    ("fail-message-out-of-reduce-in-an-unused-default", 'let msg = reduce(func (acc, s) => acc + s, "", ["a", "b"]);\nlet r = select ("x", fail msg) => {x = 1};\nlet u = r + 1;'),
    ("function-guards-a-selection-with-is", 'let f = func (t) => select (t is "tuple", 0) => {true = t.x};\nlet r = f(1) + 1;'),
]
# one library reached twice from one file: under every pair of spellings of its path and through files in its own and in
# another directory that import it with `./` and with `../`, in both orders (added after a sixth-round seeded change: the
# checker's import-shape cache keyed by the spelling, and a stack of files being checked that was never popped)
_TWICE = [("b", './c07lib/b.ucg', "val"), ("bdot", './c07lib/./b.ucg', "val"), ("bup", './c07lib/../c07lib/b.ucg', "val"), ("bsvc", './c07svc/../c07lib/b.ucg', "val"),
          ("bbare", 'c07lib/b.ucg', "val"), ("via-neighbour", './c07lib/a.ucg', "v"), ("via-neighbour-up", './c07lib/e.ucg', "v"), ("via-other-directory", './c07svc/svc.ucg', "v")]
RAW_FORMS += [("import-twice:%s-then-%s" % (n1, n2), 'let x = import "%s";\nlet y = import "%s";\nlet r = x.%s + y.%s;' % (p1, p2, f1, f2))
              for (n1, p1, f1) in _TWICE for (n2, p2, f2) in _TWICE]
RAW_FORMS += [("import-thrice:%s-%s-%s" % (n1, n2, n3), 'let x = import "%s";\nlet y = import "%s";\nlet z = import "%s";\nlet r = x.%s + y.%s + z.%s;' % (p1, p2, p3, f1, f2, f3))
              for (n1, p1, f1) in _TWICE[5:] for (n2, p2, f2) in _TWICE[:5:2] for (n3, p3, f3) in _TWICE[5:]]
RAW_FILES = {"c07lib/e.ucg": 'let b = import "../c07lib/b.ucg";\nlet v = b.val + 1;\n', "c07svc/svc.ucg": 'let shared = import "../c07lib/b.ucg";\nlet v = shared.val + 1;\n',
             "std/lists.ucg": "let unrelated = 1;\n", "c07lib/a.ucg": 'let b = import "./b.ucg";\nlet v = b.val + 1;\n', "c07lib/b.ucg": "let val = 41;\n", "b.ucg": 'let val = "forty-one";\n',
             "c07lib/c.ucg": 'let d = import "./d.ucg";\nlet v = d.only_here;\n', "c07lib/d.ucg": "let only_here = 1;\n", "d.ucg": "let other = 2;\n",
             "c07data.txt": "41", "c07data.json": '{"v": 41}', "c07num.json": "41", "c07list.json": "[41, 42]", "c07data.yaml": "v: 41\n", "c07data.toml": "v = 41\n"}


def raw_category(name, src, srv):
    """documented forms that need data files: differential only (no reference interpreter)"""
    d = scratch_dir()
    for fn, t in RAW_FILES.items():
        fp = os.path.join(d, fn)
        if not os.path.exists(fp):
            os.makedirs(os.path.dirname(fp), exist_ok=True)
            with open(fp, "w") as f:
                f.write(t)
    # each form in an environment of its own: what an earlier form left in the import and shape caches of a shared one
    # hides faults that a `ucg build` of the file alone shows (found while trialling a sixth-round seeded change)
    ev = srv.req({"op": "eval", "src": src, "cwd": d, "env": "fresh"})
    if "ok" not in ev:
        return "eval-fails(skipped)", None
    path = os.path.join(d, "raw%d_%d.ucg" % (os.getpid(), next(_counter)))
    with open(path, "w") as f:
        f.write(src + "\n")
    try:
        b = srv.req({"op": "build", "path": path, "env": "fresh"})
    finally:
        os.unlink(path)
    if "ok" in b:
        return ("evaluates+builds-same", None) if strip_pkg(b["ok"]) == strip_pkg(ev["ok"]) else ("BUILD-VALUE-DIFFERS", "build-value-differs")
    if "err" in b and "Type error" in b["err"]:
        return "CHECKER-REJECTS", "checker-rejects: " + checker_msg(b["err"])
    return "BUILD-FAILS", "build-fails: " + refsem.classify_error(b.get("err", ""))


_DIR = None


def scratch_dir():
    global _DIR
    if _DIR is None:
        _DIR = tempfile.mkdtemp(prefix="ucgverif-c07-")
        import atexit
        atexit.register(shutil.rmtree, _DIR, True)
    return _DIR


_counter = itertools.count()


def checker_msg(err):
    m = re.search(r"Type error: (.*?)( at (file|line)|\n|$)", err, re.S)
    msg = m.group(1) if m else err.split("\n")[-1]
    msg = re.sub(r"\d+", "N", msg)
    msg = re.sub(r"'[^']*'", "'_'", msg)
    return msg[:90]


NONSTRICT = [False]      # the pass being run: strict (default) or --no-strict on both sides


def _kw():
    return {"strict": False} if NONSTRICT[0] else {}


def _refkw():
    return {"eager": True, "strict": False} if NONSTRICT[0] else {"eager": True}


def build_category(stmts, srv, d=None):
    """None if eval fails, or the reference fails, or build agrees; else a category string."""
    try:
        src = pr_prog(stmts)
    except ValueError:
        return None
    ev = srv.req(dict({"op": "eval", "src": src}, **_kw()))
    if "ok" not in ev:
        return None
    ref = c01.reference(stmts, _refkw())
    if ref is None or ref[0] != "ok":
        return None
    d = d or scratch_dir()
    path = os.path.join(d, "p%d_%d.ucg" % (os.getpid(), next(_counter)))
    with open(path, "w") as f:
        f.write(src + "\n")
    try:
        b = srv.req(dict({"op": "build", "path": path}, **_kw()))
    finally:
        os.unlink(path)
    if "ok" in b:
        if strip_pkg(b["ok"]) == strip_pkg(ev["ok"]):
            return None
        return "build-value-differs"
    if "err" in b:
        if "Type error" in b["err"]:
            return "checker-rejects: " + checker_msg(b["err"])
        return "build-fails: " + refsem.classify_error(b["err"])
    return "build-crashes"


def lit_class(e):
    k = e[0]
    if k in ("int", "float", "str", "bool", "null", "list", "tuple"):
        return k
    if k == "sym":
        return "name"
    if k == "bin":
        return "bin" + e[1]
    return k


def concatenates_unlike_lists(stmts):
    it = refsem.Interp(eager=True)
    try:
        it.run(stmts)
    except Exception:
        return False
    return it.hetero_concat


def selects_null(stmts):
    it = refsem.Interp(eager=True, strict=False)
    try:
        it.run(stmts)
    except Exception:
        return False
    return it.null_selections > 0


def construct_class(stmts):
    """The shrunk witness abstracted to its root construct and the classes of its direct
    operands; earlier statements contribute only the kind of value they bind."""
    st = stmts[c01.prelude_len(stmts):]
    last = st[-1]
    e = last[2] if last[0] == "let" else last[1]
    kids = [lit_class(c) for c in e[1:] if c01.is_expr(c)]
    for c in e[1:]:
        if isinstance(c, list):
            kids.extend(lit_class(x) if c01.is_expr(x) else ("field:" + lit_class(x[1]) if isinstance(x, tuple) and len(x) == 2 and c01.is_expr(x[1]) else "?") for x in c)
    root = lit_class(e)
    pre = ",".join("%s=%s" % (s_[1], lit_class(s_[2])) for s_ in st[:-1] if s_[0] == "let")
    return "%s(%s)%s" % (root, ",".join(kids), (" with " + pre) if pre else "")


def strip_pkg(j):
    """`mod.pkg` exists only for modules declared in a file (documented); a program that binds
    the whole `mod` tuple therefore differs by that one field between eval and build."""
    if isinstance(j, dict):
        if "t" in j:
            return {"t": [[k, strip_pkg(v)] for k, v in j["t"] if not (k == "pkg" and v is None)]}
        if "l" in j:
            return {"l": [strip_pkg(v) for v in j["l"]]}
    return j


def work(chunk):
    srv = core.worker_server()
    d = scratch_dir()
    progs = []
    hist = {}
    for desc in chunk:
        try:
            st = desc[2] if desc[0] in ("s4", "doc") else c01.expand(desc)
            src = pr_prog(st)
        except ValueError:
            continue
        progs.append((desc, st, src))
    evs = srv.req_many([dict({"op": "eval", "src": src}, **_kw()) for _, _, src in progs])
    todo = []
    for (desc, st, src), ev in zip(progs, evs):
        if "ok" not in ev:
            hist["eval-fails(skipped)"] = hist.get("eval-fails(skipped)", 0) + 1
            continue
        ref = c01.reference(st, _refkw())
        if ref is None or ref[0] != "ok":
            hist["reference-fails(skipped)"] = hist.get("reference-fails(skipped)", 0) + 1
            continue
        path = os.path.join(d, "p%d_%d.ucg" % (os.getpid(), next(_counter)))
        with open(path, "w") as f:
            f.write(src + "\n")
        todo.append((desc, st, src, ev, path))
    bs = srv.req_many([dict({"op": "build", "path": p}, **_kw()) for (_, _, _, _, p) in todo])
    viol = []
    for (desc, st, src, ev, path), b in zip(todo, bs):
        os.unlink(path)
        if "ok" in b and strip_pkg(b["ok"]) == strip_pkg(ev["ok"]):
            oc = "evaluates+builds-same"
        elif "ok" in b:
            oc = "BUILD-VALUE-DIFFERS"
            viol.append((repr(st), src, oc, {"eval": ev["ok"], "build": b["ok"]}))
        elif "err" in b and "Type error" in b["err"]:
            oc = "CHECKER-REJECTS"
            viol.append((repr(st), src, oc, b["err"][:300]))
        elif "err" in b:
            oc = "BUILD-FAILS"
            viol.append((repr(st), src, oc, b["err"][:300]))
        else:
            oc = "BUILD-CRASHES"
            viol.append((repr(st), src, oc, b))
        hist[oc] = hist.get(oc, 0) + 1
    srv.recycle()      # the op cache keeps every built file; start the next chunk from an empty one
    return {"evals": len(progs), "nontrivial": len(todo), "hist": hist, "viol": viol[:400],
            "sample": todo[len(todo) // 2][2].split("\n")[-1] if todo else None}


def work_nonstrict(chunk):
    NONSTRICT[0] = True
    try:
        part = work(chunk)
    finally:
        NONSTRICT[0] = False
    part["hist"] = {"nonstrict:" + k: v for k, v in part["hist"].items()}
    part["viol"] = [(a, b, "nonstrict:" + c, d) for a, b, c, d in part["viol"]]
    return part


def run(ctx):
    thorough = ctx.tier == "thorough"
    nt = len(c01.TEMPLATES)
    ctx.bounds = {"templates": nt, "leaves": c01.NLEAVES, "path_depth": 3 if thorough else 2}
    ctx.rule = ("C01 strata S1 (operators x leaf pairs), S2 (templates x leaves), S3 (template pairs; thorough: triples), S4 (scoping "
                "sequences) plus %d documented forms (functional operators over let-bound and literal tuples/strings with bound and inline "
                "callbacks, calls and copies through selectors, selectors to depth 4, computed and quoted selectors, heterogeneous list "
                "concatenation). evaluations = programs evaluated without the checker; distinct non-trivial = those that evaluated "
                "successfully (and on which the reference agrees) and were therefore built as files." % len(list(documented_forms())))
    viol = []

    def descs():
        for d, st in documented_forms():
            yield ("doc", d, st)
        for d, st in function_grid():
            yield ("doc", d, st)
        for d, st in nested_call_grid():
            yield ("doc", d, st)
        for d, st in producer_consumer_grid():
            yield ("doc", d, st)
        for d, st in select_arm_grid():
            yield ("doc", d, st)
        for d, st in callback_name_grid():
            yield ("doc", d, st)
        for d, st in function_result_use_grid():
            yield ("doc", d, st)
        for d, st in callee_name_grid():
            yield ("doc", d, st)
        for d, st in copy_override_grid():
            yield ("doc", d, st)
        for d, st in field_selection_grid():
            yield ("doc", d, st)
        for d, st in nested_module_grid():
            yield ("doc", d, st)
        for op in c01.OPS:
            for a in range(c01.NLEAVES):
                for b in range(c01.NLEAVES):
                    yield ("s1", op, a, b)
        for t in range(nt):
            for leaf in range(c01.NLEAVES):
                yield ("path", (t,), leaf, False)
        for t1 in range(nt):
            for t2 in range(nt):
                yield ("pathT", (t1, t2))
        for d, st in c01.gen_s4():
            yield ("s4", d, st)
        if thorough:
            for t1 in range(nt):
                for t2 in range(nt):
                    for t3 in range(nt):
                        yield ("pathT", (t1, t2, t3))

    for part in core.pmap_gen(work, descs(), chunk=1200):
        ctx.count(part["evals"], part["nontrivial"])
        for k, v in part["hist"].items():
            ctx.outcome(k, v)
        if part["sample"]:
            ctx.sample(part["sample"])
        viol.extend(part["viol"])

    # the same comparison with --no-strict on both sides (missing fields and unset variables are
    # NULL there): documented forms, the three grids, S1 and S2
    def ns_descs():
        for d, st in itertools.chain(documented_forms(), function_grid(), nested_call_grid(), producer_consumer_grid(), select_arm_grid(), callback_name_grid(), function_result_use_grid(), copy_override_grid(), callee_name_grid(), field_selection_grid(), nested_module_grid()):
            if d[1].startswith("fgrid2:"):
                continue
            yield ("doc", d, st)
        for op in c01.OPS:
            for a in range(c01.NLEAVES):
                for b in range(c01.NLEAVES):
                    yield ("s1", op, a, b)
        for t in range(nt):
            for leaf in range(c01.NLEAVES):
                yield ("path", (t,), leaf, False)

    for part in core.pmap_gen(work_nonstrict, ns_descs(), chunk=1200):
        ctx.count(part["evals"], part["nontrivial"])
        for k, v in part["hist"].items():
            ctx.outcome(k, v)
        viol.extend(part["viol"])

    import ast as _ast
    viol.sort(key=lambda v: (len(v[1]), v[1]))
    srv = core.Server()
    seen = {}
    for name, src in RAW_FORMS:
        oc, cat = raw_category(name, src, srv)
        ctx.count(1, 0 if oc.startswith("eval-fails") else 1)
        ctx.outcome("doc-with-data-file:" + oc)
        if cat:
            ctx.violation("%s :: %s" % (cat, name), "%s although `%s` evaluates" % (cat, src.replace("\n", " ")),
                          {"kind": "raw", "name": name, "src": src, "category": cat})
    budget = 1500
    try:
        for ast_s, src, oc, detail in viol:
            st = _ast.literal_eval(ast_s)
            NONSTRICT[0] = oc.startswith("nonstrict:")
            cat = build_category(st, srv)
            if cat is None:
                ctx.machinery_errors.append("not reproducible alone: %s" % src.split("\n")[-1])
                continue
            if budget > 0:
                budget -= 1
                wit = c01.shrink(st, srv, cat_fn=lambda s_: build_category(s_, srv))
            else:
                wit = st
            sig = "%s :: %s" % (cat, construct_class(wit))
            if cat.startswith("checker-rejects") and concatenates_unlike_lists(wit):
                # one recorded defect (the checker wants the two lists of a + to have one element type) reached
                # through any construct; labelled by what the minimal witness does, not by the message
                sig = "checker-rejects: heterogeneous list concatenation :: %s" % construct_class(wit)
            elif NONSTRICT[0]:
                sig = "nonstrict: " + sig
                if cat.startswith("checker-rejects") and selects_null(wit):
                    # one recorded defect (the checker is never told about --no-strict) reached through every
                    # selection the VM turns into NULL there; labelled by what the minimal witness does
                    sig = "nonstrict: checker-rejects a selection that is NULL under --no-strict :: %s" % construct_class(wit)
            if sig in seen:
                ctx.violations[sig]["count"] += 1
                continue
            seen[sig] = 1
            ctx.violation(sig, "%s although `%s` evaluates (found as `%s`)" % (cat, pr_prog(wit[c01.prelude_len(wit):]).replace("\n", " "), src.split("\n")[-1][:100]),
                          {"kind": "eval-vs-build", "src": pr_prog(wit), "ast": repr(wit), "category": cat, "original": src, "detail": detail,
                           "nonstrict": NONSTRICT[0]})
            if len(seen) > 300:
                break
    finally:
        NONSTRICT[0] = False
        srv.close()


def replay(case):
    import ast as _ast
    if case.get("kind") == "raw":
        srv = core.Server()
        try:
            oc, cat = raw_category(case["name"], case["src"], srv)
        finally:
            srv.close()
        return cat is None, {"category_now": cat}
    st = _ast.literal_eval(case["ast"])
    srv = core.Server()
    NONSTRICT[0] = bool(case.get("nonstrict"))
    try:
        cat = build_category(st, srv)
    finally:
        NONSTRICT[0] = False
        srv.close()
    return cat is None, {"category_now": cat}
