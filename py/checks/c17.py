"""C17 — syntax and evaluation errors point at the statement that causes them.

E1 through eval_string and build(path): base programs of multi-line statements with exactly one
fault of each kind injected at every statement index and nesting position; the generator knows
every statement's source span. Oracle: the first `line: N column: M` of the diagnostic lies
inside the faulty statement's span; for a fault inside a function body called from a later
statement at least one `VIA:` position lies inside the calling statement; inserting k lines of
unrelated statements before moves (N, M) to (N + k, M), inserting after changes nothing.
"""
import itertools
import os
import re
import shutil
import tempfile

from vf import core

LEVEL = "exploration"

# unrelated, well-formed multi-line statements ({i} makes names unique)
BASE = [
    "let a{i} = {{\n    x = 1,\n    y = [1, 2],\n}};",
    "let f{i} = func (p) =>\n    p + 1;",
    "let b{i} = f{j}(\n    2\n);" if False else "let b{i} = [\n    1,\n    2,\n];",
    "let s{i} = select (\"k\", 0) => {{\n    k = 1,\n}};",
    "let m{i} = module {{\n    q = 1,\n}} => {{\n    let r = mod.q;\n}};",
    "let c{i} = \"a\" +\n    \"b\";",
]
EXTRA_ONE = "let e{i} = {i};"
EXTRA_THREE = "let g{i} = [\n    {i},\n];"

PRELUDE = ["let ident = func (p) => p;", "let tt = {\n    have = 1,\n    sv = \"s\",\n};", "let ll = [\n    1,\n];",
           "let sv = \"s\";", "let two = func (p, q) =>\n    p +\n    q;", "let ls = [\n    \"s\",\n];",
           "let inc = func (n) =>\n    n +\n    1;", "let mm = module {\n    p = 1,\n} => (r) {\n    let r = mod.p + 1;\n};",
           "let mo = module {\n    v = \"s\",\n} => (mod.v) {\n    let x = 1;\n};", "let mt = module {\n    v = \"s\",\n} => {\n    let x = mod.v;\n};"]
# A value of the wrong type handed to a function or a module: the fault is the call. At run time it
# shows inside the callee, which is then the primary position with the calling statement listed as
# VIA; both placements are accepted. {consumer: index of the callee's statement in PRELUDE}
CALLEE = {"call-argument-type": 6, "module-parameter-type": 7}

FAULTS = [
    ("unknown-name", "nosuch"),
    ("type-mismatch", "1 + \"s\""),
    ("missing-field", "tt.nofield"),
    ("missing-index", "ll.9"),
    ("unhandled-select", "select (\"zz\") => {\n        a = 1,\n    }"),
    ("failed-cast", "int(\"x\")"),
    ("fail-expression", "fail \"boom\""),
    ("wrong-arity", "ident(1, 2)"),
    ("syntax-missing-operand", "1 + "),
    ("syntax-double-comma", "[1,, 2]"),
    ("syntax-unclosed-bracket", "[1, 2"),
]

# The offending operand of a run-time fault comes from somewhere: the VM takes the position it
# reports from the value on its stack, so every way of producing that value is a separate path.
# Each producer below yields the string "s"; each consumer faults on a string.
PRODUCERS = [
    ("name", "sv"),
    ("call", "ident(\"s\")"),
    ("call-multi-line-function", "two(\"\", \"s\")"),
    ("nested-call", "ident(ident(\"s\"))"),
    ("field", "tt.sv"),
    ("index", "ls.0"),
    ("select", "select (\"a\") => {a = \"s\"}"),
    ("copy-field", "tt{z = \"s\"}.z"),
    ("format", "(\"@\" % (\"s\"))"),
    ("concat", "(\"\" + \"s\")"),
    ("reduce", "reduce(func (acc, it) => acc + it, \"\", ls)"),
    ("reduce-with-a-callback-defined-earlier", "reduce(two, \"\", ls)"),
    ("map-with-a-callback-defined-earlier", "map(ident, ls).0"),
    ("module-out-expression", "mo{}"),
    ("module-out-expression-with-argument", "mo{v = \"s\"}"),
    ("module-result-field", "mt{}.x"),
]
CONSUMERS = [
    ("type-mismatch-right", "1 + @P@"),
    ("type-mismatch-left", "@P@ + 1"),
    ("failed-cast", "int(@P@)"),
    ("not-boolean", "not @P@"),
    ("and-left", "@P@ && true"),
    ("and-right", "true && @P@"),
    ("not-callable", "@N@(1)"),
    ("copy-of-non-tuple", "@N@{a = 1}"),
    ("range-end", "1:(@P@)"),
    ("select-on-missing-arm", "select (@P@) => {\n        other = 1,\n    }"),
    ("map-over-non-collection", "map(ident, int(\"1\") + @P@)"),
    ("call-argument-type", "inc(@P@)"),
    ("module-parameter-type", "mm{p = @P@}"),
]
for _cn, _ct in CONSUMERS:
    for _pn, _pt in PRODUCERS:
        if "@N@" in _ct and _pn not in ("name", "field"):
            continue        # a call or a copy needs a name or a selector in front of it
        FAULTS.append(("%s<-%s" % (_cn, _pn), _ct.replace("@N@", "@P@").replace("@P@", _pt)))

# nesting positions: text with @F@ ; "call" = the fault sits in a function body called later
NEST = [
    ("top-level", "let q = @F@;", None),
    ("tuple-field", "let q = {\n    k = @F@,\n    z = 2,\n};", None),
    ("list-element", "let q = [\n    1,\n    @F@,\n];", None),
    ("call-argument", "let q = ident(\n    @F@\n);", None),
    ("select-arm", "let q = select (\"a\", 0) => {\n    a = @F@,\n};", None),
    ("function-body", "let fb = func (p) =>\n    @F@;", "let r = fb(\n    1\n);"),
    ("module-body", "let mb = module {\n    a = 1,\n} => {\n    let inner =\n        @F@;\n};", "let r = mb{\n    a = 2,\n};"),
    ("module-out-expression", "let mb = module {\n    a = 1,\n} => (\n    @F@) {\n    let inner = 1;\n};", "let r = mb{\n    a = 2,\n};"),
    ("copy-field", "let q = tt{\n    extra = @F@,\n};", None),
    # the fault sits in a function that map / filter / reduce call back, over a collection defined in yet another statement
    ("callback-function-called-by-map", "let cb = func (it) =>\n    @F@;", "let r = map(\n    cb,\n    ll\n);"),
    ("callback-function-called-by-filter", "let cb = func (it) =>\n    @F@;", "let r = filter(\n    cb,\n    ll\n);"),
    ("callback-function-called-by-reduce", "let cb = func (acc, it) =>\n    @F@;", "let r = reduce(\n    cb,\n    0,\n    ll\n);"),
    ("callback-function-called-by-map-over-tuple", "let cb = func (k, it) =>\n    @F@;", "let r = map(\n    cb,\n    tt\n);"),
    ("callback-function-called-by-reduce-over-tuple", "let cb = func (acc, k, it) =>\n    @F@;", "let r = reduce(\n    cb,\n    0,\n    tt\n);"),
    ("callback-function-called-by-map-over-string", "let cb = func (it) =>\n    @F@;", "let r = map(\n    cb,\n    sv\n);"),
    ("filter-callback", "let q = filter(\n    func (it) => @F@,\n    ll\n);", None),
    ("reduce-callback", "let q = reduce(\n    func (acc, it) => @F@,\n    0,\n    ll\n);", None),
    ("map-callback", "let q = map(\n    func (it) => @F@,\n    ll\n);", None),
    ("format-argument", "let q = \"v=@\" % (\n    @F@\n);", None),
    ("binary-right-operand", "let q = tt.have +\n    @F@;", None),
    ("select-default", "let q = select (\"zz\",\n    @F@) => {\n    a = 1,\n};", None),
    # the fault sits in the expression embedded in a format template (@FQ@ = the fault text written inside a string literal)
    ("format-expression", "let q = \"v=@{@FQ@}\" % 1;", None),
    ("format-expression-on-a-continuation-line", "let q =\n    \"v=@{@FQ@}\" %\n    1;", None),
    ("format-expression-second", "let q = \"@{item}, v=@{@FQ@}\" % 1;", None),
]


CLI_NESTS = ("top-level", "function-body", "module-body", "format-expression", "callback-function-called-by-map")

# expression-level nesting for the thorough tier: the fault sits two constructs deep
EXPR_NEST = [
    ("in-tuple-field", "{\n        kk = @F@,\n        zz = 2,\n    }.kk"),
    ("in-list-element", "[\n        1,\n        @F@,\n    ]"),
    ("in-call-argument", "ident(\n        @F@\n    )"),
    ("in-select-arm", "select (\"a\", 0) => {\n        a = @F@,\n    }"),
    ("in-copy-field", "tt{\n        more = @F@,\n    }"),
    ("in-map-callback", "map(\n        func (jt) => @F@,\n        ll\n    )"),
    ("in-format-argument", "\"w=@\" % (\n        @F@\n    )"),
    ("in-group", "(\n        @F@\n    )"),
    ("in-inline-function-called", "ident(func (zz) =>\n        @F@)(1)" if False else "two(\n        1,\n        @F@\n    )"),
]


def nlines(s):
    return s.count("\n") + 1


def assemble(stmts):
    """stmts: list of texts -> (source, spans [(first_line, last_line, last_col)])"""
    spans = []
    line = 1
    for s in stmts:
        n = nlines(s)
        spans.append((line, line + n - 1, len(s.split("\n")[-1])))
        line += n
    return "\n".join(stmts) + "\n", spans


def first_pos(msg):
    m = re.search(r"line: (\d+) column: (\d+)", msg)
    return (int(m.group(1)), int(m.group(2))) if m else None


def via_positions(msg):
    return [(int(a), int(b)) for a, b in re.findall(r"VIA: (?:file: \S+ )?line: (\d+) column: (\d+)", msg)]


def inside(pos, span):
    if pos is None:
        return False
    return span[0] <= pos[0] <= span[1]


def gen_cases(thorough):
    """yields (descriptor, stmts, faulty index, calling index or None)"""
    nbase = 4 if thorough else 3
    nests = [(n, t, c) for n, t, c in NEST]
    if thorough:
        for (n, t, c), (en, et) in itertools.product(NEST, EXPR_NEST):
            if "@FQ@" in t:
                continue
            nests.append((n + "/" + en, t.replace("@F@", et), c))
    for (fname, ftext), (nname, ntext, caller) in itertools.product(FAULTS, nests):
        if fname.startswith("syntax") and (nname.split("/")[0] in ("function-body", "module-body", "module-out-expression") or nname.startswith("callback-function")):
            continue        # a syntax fault is found while parsing, not when the function / module is used
        faulty = ntext.replace("@FQ@", ftext.replace("\\", "\\\\").replace('"', '\\"')).replace("@F@", ftext)
        for idx in range(0, nbase + 1):
            base = [BASE[k % len(BASE)].format(i=k, j=k) for k in range(nbase)]
            stmts = list(PRELUDE) + base[:idx] + [faulty] + base[idx:]
            fi = len(PRELUDE) + idx
            ci = None
            if caller:
                stmts = stmts + [caller]
                ci = len(stmts) - 1
            yield (fname, nname, idx), stmts, fi, ci
    for case in gen_unterminated():
        yield case
    for case in gen_constrained():
        yield case


# A string literal that never closes swallows the rest of the file, so the statements after it must not hold a quote
# themselves (one that does would close the literal and make a second, different fault further down).
QUOTE_FREE = [0, 1, 2, 4]          # indices into BASE
UNTERMINATED = [("syntax-unterminated-string", "\"abc"), ("syntax-unterminated-string-escaped-closing-quote", "\"abc\\\""),
                ("syntax-unterminated-string-with-line-break", "\"abc\n    def")]


def gen_unterminated():
    for (fname, ftext), (nname, ntext, caller) in itertools.product(UNTERMINATED, NEST[:4]):
        faulty = ntext.replace("@F@", ftext)
        for idx in range(0, 4):
            base = [BASE[QUOTE_FREE[k % len(QUOTE_FREE)]].format(i=k, j=k) for k in range(3)]
            stmts = list(PRELUDE) + base[:idx] + [faulty] + base[idx:]
            yield (fname, nname, idx), stmts, len(PRELUDE) + idx, None


# A value that does not fit its constraint, where the constraint is a name defined in an earlier statement (a constraint
# statement or a let-bound exemplar): the fault is the binding, not the definition of the constraint.
CONSTRAINT_PRELUDE = ["constraint cc = 0;", "let ex = 0;", "constraint alt = 0 | 1;"]
CONSTRAINED = [
    ("constraint-violated:named-constraint:let", "let q :: cc =\n    \"s\";"),
    ("constraint-violated:let-bound-exemplar:let", "let q :: ex =\n    \"s\";"),
    ("constraint-violated:named-alternation:let", "let q :: alt =\n    \"s\";"),
    ("constraint-violated:inline:let", "let q :: 0 =\n    \"s\";"),
    ("constraint-violated:named-constraint:let-of-a-name", "let q :: cc =\n    sv;"),
    ("constraint-violated:named-constraint:tuple-field", "let q = {\n    k :: cc = \"s\",\n    z = 2,\n};"),
    ("constraint-violated:let-bound-exemplar:tuple-field", "let q = {\n    k :: ex = \"s\",\n    z = 2,\n};"),
    ("constraint-violated:let-bound-exemplar:module-out-expression", "let q = module {\n    x = \"s\",\n} => (mod.x :: ex) {\n    let y = 1;\n};"),
    ("constraint-violated:named-constraint:module-out-expression", "let q = module {\n    x = \"s\",\n} => (mod.x :: cc) {\n    let y = 1;\n};"),
]


def gen_constrained():
    for fname, faulty in CONSTRAINED:
        for idx in range(0, 4):
            base = [BASE[k % len(BASE)].format(i=k, j=k) for k in range(3)]
            stmts = list(PRELUDE) + CONSTRAINT_PRELUDE + base[:idx] + [faulty] + base[idx:]
            yield (fname, "statement", idx), stmts, len(PRELUDE) + len(CONSTRAINT_PRELUDE) + idx, None


def variants(stmts, fi, ci):
    """the base program and the same with unrelated statements inserted before / after the fault"""
    yield "base", stmts, fi, ci, 0
    for k, (extra, cnt) in enumerate([(EXTRA_ONE, 1), (EXTRA_THREE, 1), (EXTRA_ONE, 3)]):
        ins = [extra.format(i=900 + k * 10 + n) for n in range(cnt)]
        added = sum(nlines(x) for x in ins)
        yield "before-%d" % (k + 1), stmts[:fi] + ins + stmts[fi:], fi + len(ins), (ci + len(ins)) if ci is not None else None, added
        after_at = fi + 1
        yield "after-%d" % (k + 1), stmts[:after_at] + ins + stmts[after_at:], fi, (ci + len(ins)) if ci is not None else None, 0


_DIR = None
_cnt = itertools.count()


def sdir():
    global _DIR
    if _DIR is None or _DIR[0] != os.getpid():
        d = tempfile.mkdtemp(prefix="ucgverif-c17-")
        _DIR = (os.getpid(), d)
        import atexit
        atexit.register(shutil.rmtree, d, True)
    return _DIR[1]


def work(chunk):
    srv = core.worker_server()
    d = sdir()
    hist = {}
    viol = []
    evals = 0
    for desc, stmts, fi, ci in chunk:
        callee = CALLEE.get(desc[0].split("<-")[0])
        routes = ("eval", "build")
        if desc[2] == 1 and desc[1] in CLI_NESTS:
            routes = ("eval", "build", "cli")       # what the real `ucg build` prints, for a sample of the nesting positions
        if ":tuple-field" in desc[0] or ":module-out-expression" in desc[0]:
            routes = tuple(r for r in routes if r != "eval")     # only the static checker vets a tuple field's constraint
        for route in routes:
            base_pos = None
            for vname, vst, vfi, vci, shift in variants(stmts, fi, ci):
                if route == "cli" and vname not in ("base", "before-2", "after-1"):
                    continue
                src, spans = assemble(vst)
                if route == "eval":
                    rs = srv.req({"op": "eval", "src": src})
                elif route == "cli":
                    p = os.path.join(d, "e%d_%d.ucg" % (os.getpid(), next(_cnt)))
                    with open(p, "w") as f:
                        f.write(src)
                    rc, out, err = core.run_ucg(["build", p], cwd=d, env={"HOME": d})
                    os.unlink(p)
                    rs = {"err": err.decode("utf-8", "replace")} if rc == 1 else ({"ok": None} if rc == 0 else {"crash": rc, "stderr": err.decode("utf-8", "replace")[-300:]})
                else:
                    p = os.path.join(d, "e%d_%d.ucg" % (os.getpid(), next(_cnt)))
                    with open(p, "w") as f:
                        f.write(src)
                    rs = srv.req({"op": "build", "path": p})
                    os.unlink(p)
                evals += 1
                bad = None
                if "err" not in rs:
                    bad = ("no-diagnostic" if "ok" in rs else "crash", rs if "ok" not in rs else None)
                else:
                    msg = rs["err"]
                    pos = first_pos(msg)
                    if pos is None:
                        bad = ("diagnostic-without-position", msg[:300])
                    elif callee is not None and inside(pos, spans[callee]) and any(inside(v, spans[vfi]) for v in via_positions(msg)) \
                            and (vci is None or any(inside(v, spans[vci]) for v in via_positions(msg))):
                        # shows inside the callee, the faulty call is listed: accepted (the callee sits in the prelude,
                        # above every inserted statement, so its position must not move at all)
                        if vname == "base":
                            base_pos = pos
                        elif base_pos is not None and pos != base_pos:
                            bad = ("position-moves-with-unrelated-statements:%s" % vname.split("-")[0],
                                   {"base": base_pos, "lines_added_before": 0, "observed": pos, "message": msg[:300]})
                    elif not inside(pos, spans[vfi]):
                        where = "before" if pos[0] < spans[vfi][0] else "after"
                        bad = ("primary-position-%s-faulty-statement" % where, {"position": pos, "span": spans[vfi], "message": msg[:300]})
                    elif vci is not None and "Type error" not in msg and not any(inside(v, spans[vci]) for v in via_positions(msg)):
                        # (a fault the static checker finds in the function definition involves no call: its
                        # diagnostic points at the definition and has no caller to list)
                        bad = ("calling-statement-not-listed", {"via": via_positions(msg), "caller_span": spans[vci], "message": msg[:400]})
                    else:
                        if vname == "base":
                            base_pos = pos
                        elif base_pos is not None and pos != (base_pos[0] + shift, base_pos[1]):
                            bad = ("position-moves-with-unrelated-statements:%s" % vname.split("-")[0],
                                   {"base": base_pos, "lines_added_before": shift, "observed": pos, "message": msg[:300]})
                k = "%s:%s" % (route, "inside-span" if bad is None else bad[0].upper())
                hist[k] = hist.get(k, 0) + 1
                if bad:
                    viol.append((desc, route, vname, bad[0], src, bad[1]))
        if route == "build":
            pass
    srv.recycle()
    return {"evals": evals, "hist": hist, "viol": viol[:300], "sample": None}


# A fault the type checker finds in a file that is imported (bound by a let, which is the route the checker follows):
# the diagnostic names the imported file and a line inside the faulty statement there, whatever the importing file holds.
IMPORTED_FAULTS = [("missing-field", "tt.nofield"), ("type-mismatch", "1 +\n    \"s\""), ("not-boolean", "not sv"), ("call-argument-type", "inc(sv)")]


def gen_imported():
    for (fname, ftext), idx, depth, pad in itertools.product(IMPORTED_FAULTS, range(0, 3), (1, 2), (0, 3)):
        yield (fname, idx, depth, pad)


def work_imported(chunk):
    srv = core.worker_server()
    hist = {}
    viol = []
    evals = 0
    for fname, idx, depth, pad in chunk:
        ftext = dict(IMPORTED_FAULTS)[fname]
        d = tempfile.mkdtemp(prefix="ucgverif-c17i-")
        try:
            base = [BASE[k % len(BASE)].format(i=k, j=k) for k in range(2)]
            stmts = list(PRELUDE) + base[:idx] + ["let q =\n    %s;" % ftext] + base[idx:]
            fi = len(PRELUDE) + idx
            src, spans = assemble(stmts)
            with open(os.path.join(d, "lib.ucg"), "w") as f:
                f.write(src)
            padding = "".join("let pad%d = %d;\n" % (k, k) for k in range(pad))
            if depth == 1:
                main = padding + "let lib = import \"./lib.ucg\";\nlet z = 1;\n"
            else:
                with open(os.path.join(d, "mid.ucg"), "w") as f:
                    f.write("let inner = import \"./lib.ucg\";\nlet m = 2;\n")
                main = padding + "let mid = import \"./mid.ucg\";\nlet z = 1;\n"
            with open(os.path.join(d, "main.ucg"), "w") as f:
                f.write(main)
            for route in ("build", "cli"):
                if route == "build":
                    rs = srv.req({"op": "build", "path": os.path.join(d, "main.ucg")})
                    msg = rs.get("err") if "err" in rs else None
                else:
                    rc, out, err = core.run_ucg(["build", "main.ucg"], cwd=d, env={"HOME": d})
                    msg = err.decode("utf-8", "replace") if rc == 1 else None
                evals += 1
                bad = None
                if msg is None:
                    bad = ("no-diagnostic", None)
                else:
                    m = re.search(r"at file: (\S+) line: (\d+) column: (\d+)", msg)
                    if not m:
                        bad = ("diagnostic-without-file-and-position", msg[:300])
                    elif os.path.basename(m.group(1)) != "lib.ucg":
                        bad = ("diagnostic-names-%s-instead-of-the-imported-file" % ("the-importing-file" if os.path.basename(m.group(1)) == "main.ucg" else "another-file"), msg[:300])
                    elif not inside((int(m.group(2)), int(m.group(3))), spans[fi]):
                        bad = ("primary-position-outside-faulty-statement-of-the-imported-file", {"position": [int(m.group(2)), int(m.group(3))], "span": spans[fi], "message": msg[:300]})
                k = "imported-file:%s:%s" % (route, "inside-span" if bad is None else bad[0].upper())
                hist[k] = hist.get(k, 0) + 1
                if bad:
                    viol.append(((fname + ":in-imported-file", "depth-%d" % depth, idx), route, "pad-%d" % pad, bad[0], src, bad[1]))
        finally:
            shutil.rmtree(d, ignore_errors=True)
    return {"evals": evals, "hist": hist, "viol": viol, "sample": None}


def run(ctx):
    thorough = ctx.tier == "thorough"
    cs = list(gen_cases(thorough))
    ctx.bounds = {"fault_kinds": len(FAULTS), "nesting_positions": len(NEST) * (1 + (len(EXPR_NEST) if thorough else 0)), "statement_indices": (4 if thorough else 3) + 1, "variants": 7,
                  "routes": ["eval_string", "build(path)", "ucg build (5 nesting positions, statement index 1)"]}
    ctx.rule = ("%d fault kinds (3 syntax, unknown name, type mismatch, missing field, missing index, unhandled select, failed cast, fail, wrong "
                "arity; and 13 consumers that fault on a string x 11 ways of producing that string) x %d nesting positions (top level, tuple field, list element, call argument, select arm / default, copy field, map "
                "callback, format argument, right operand on a continuation line, function body called and module body instantiated from a "
                "later statement) x every statement index of a base program of multi-line statements x {base, 1 one-line / 1 three-line / 3 "
                "one-line unrelated statements inserted before and, separately, after} x {eval_string, build(path)}; for five nesting positions at statement index 1 also what the real `ucg build` prints; four statically found faults inside a file imported by a let, one and two imports deep (the diagnostic names that file and a line of the faulty statement). All programs distinct; "
                "non-trivial = a diagnostic was produced and judged." % (len(FAULTS), len(NEST))
                + (" Thorough: each nesting position once more with the fault one construct deeper (9 expression-level positions inside it)." if thorough else ""))
    viol = []
    for part in core.pmap(work, cs, chunk=12):
        ctx.count(part["evals"], part["evals"])
        for k, v in part["hist"].items():
            ctx.outcome(k, v)
        viol.extend(part["viol"])
    for part in core.pmap(work_imported, list(gen_imported()), chunk=6):
        ctx.count(part["evals"], part["evals"])
        for k, v in part["hist"].items():
            ctx.outcome(k, v)
        viol.extend(part["viol"])
    src, spans = assemble(next(gen_cases(False))[1])
    ctx.sample({"program": src, "spans": spans})
    seen = {}
    for desc, route, vname, kind, src, det in sorted(viol, key=lambda v: len(v[4])):
        sig = "%s:%s:%s:%s" % (kind, desc[0], desc[1], route)
        if sig in seen:
            ctx.violations[sig]["count"] += 1
            continue
        seen[sig] = 1
        if len(seen) > 120:
            break
        ctx.violation(sig, "%s for a %s fault at %s (statement index %d, variant %s, %s)" % (kind, desc[0], desc[1], desc[2], vname, route),
                      {"kind": "position", "src": src, "route": route, "descriptor": list(desc), "variant": vname, "failure": kind, "detail": det})


def replay(case):
    d = case["descriptor"]
    if str(d[0]).endswith(":in-imported-file"):
        core._WORKER_SERVER = None
        part = work_imported([(d[0].split(":")[0], d[2], int(d[1].split("-")[1]), int(case["variant"].split("-")[1]))])
        core.worker_server().close()
        core._WORKER_SERVER = None
        vs = [v for v in part["viol"] if v[1] == case["route"]]
        return not vs, {"violations": [(v[2], v[3], v[5]) for v in vs]}
    for desc, stmts, fi, ci in gen_cases(True):
        if list(desc) == d:
            core._WORKER_SERVER = None
            part = work([(desc, stmts, fi, ci)])
            core.worker_server().close()
            core._WORKER_SERVER = None
            vs = [v for v in part["viol"] if v[1] == case["route"]]
            return not vs, {"violations": [(v[2], v[3], v[5]) for v in vs]}
    return False, {"error": "descriptor not found"}
