"""C12 — XML output is well-formed and mirrors the document the program described.

E1 + expat: document tuples are enumerated (structure, text/attribute pools, namespace forms,
declaration options, malformed kinds), converted by the registry's xml converter and parsed by
expat into a tree that keeps every text node and the raw xmlns attributes; the tree is compared
with the one computed from the tuple by the mapping of reference/converters.md.
"""
import itertools
import re
import xml.parsers.expat

from vf import core

LEVEL = "exploration"


def T(*kv):
    return {"t": [[k, v] for k, v in kv]}


def L(*x):
    return {"l": list(x)}


TEXTS = ["t", "<", ">", "&", "'", '"', "]]>", "<!--", "-->", "<?x", "?>", "&amp;", "&#10;", "&lt;b&gt;", " lead", "trail ", " ", "a  b", "l1\nl2", "\n",
         "\t", "a\tb", "é", "日本", "😀", "<a>x</a>", "<![CDATA[x]]>", "%", "\u0085", " ", "\r", "a\r\nb"]
NAMES = ["a", "b-c", "n1", "_u", "A.b"]


# ---------------------------------------------------------------------------------------------
# expected tree from the description

class Malformed(Exception):
    pass


def t_get(w, key):
    """all values of field `key` in a wire tuple (last one wins like the converter's loop)"""
    val = ("absent",)
    for k, v in w["t"]:
        if k == key:
            val = ("present", v)
    return val


def is_tuple(w):
    return isinstance(w, dict) and "t" in w


def is_list(w):
    return isinstance(w, dict) and "l" in w


def _xml10_char_ok(s):
    return all(ch in "\t\n\r" or "\u0020" <= ch <= "\ud7ff" or "\ue000" <= ch <= "\ufffd" or ch >= "\U00010000" for ch in s)


def expected_node(w):
    """-> ("text", s) | ("elem", name, attrs, children)"""
    if isinstance(w, str):
        if not _xml10_char_ok(w):
            raise Malformed("text holds a character XML 1.0 cannot carry")
        return ("text", w)
    if not is_tuple(w):
        raise Malformed("node is neither a tuple nor a string")
    name = t_get(w, "name")
    text = t_get(w, "text")
    has_name = name[0] == "present"
    has_text = text[0] == "present" and text[1] is not None
    if has_name and not isinstance(name[1], str):
        raise Malformed("name is not a string")
    if has_text and not isinstance(text[1], str):
        raise Malformed("text is not a string")
    if has_name and has_text:
        raise Malformed("both name and text")
    if has_text:
        if not _xml10_char_ok(text[1]):
            raise Malformed("text holds a character XML 1.0 cannot carry")
        return ("text", text[1])
    if not has_name:
        raise Malformed("tuple node with neither name nor text")
    attrs = {}
    a = t_get(w, "attrs")
    if a[0] == "present" and a[1] is not None:
        if not is_tuple(a[1]):
            raise Malformed("attrs is not a tuple")
        for k, v in a[1]["t"]:
            if v is None:
                continue
            if not isinstance(v, str):
                raise Malformed("attribute value is not a string")
            if not _xml10_char_ok(v):
                raise Malformed("attribute value holds a character XML 1.0 cannot carry")
            attrs[k] = v
    ns = t_get(w, "ns")
    if ns[0] == "present" and ns[1] is not None:
        if isinstance(ns[1], str):
            if not _xml10_char_ok(ns[1]):
                raise Malformed("namespace uri holds a character XML 1.0 cannot carry")
            attrs["xmlns"] = ns[1]
        elif is_tuple(ns[1]):
            d = dict((k, v) for k, v in ns[1]["t"])
            if isinstance(d.get("prefix"), str) and isinstance(d.get("uri"), str) and d["prefix"] and d["uri"]:
                if not _xml10_char_ok(d["uri"]) or not _xml10_char_ok(d["prefix"]):
                    raise Malformed("namespace holds a character XML 1.0 cannot carry")
                attrs["xmlns:" + d["prefix"]] = d["uri"]
        else:
            raise Malformed("ns is neither a string nor a tuple")
    kids = []
    c = t_get(w, "children")
    if c[0] == "present" and c[1] is not None:
        if not is_list(c[1]):
            raise Malformed("children is not a list")
        kids = [expected_node(x) for x in c[1]["l"]]
    return ("elem", name[1], attrs, kids)


def expected_doc(w):
    if not is_tuple(w):
        raise Malformed("document is not a tuple")
    root = t_get(w, "root")
    if root[0] != "present":
        raise Malformed("no root")
    version = t_get(w, "version")
    if version[0] == "present":
        if not isinstance(version[1], str) or version[1] not in ("1.0", "1.1"):
            raise Malformed("version")
    enc = t_get(w, "encoding")
    if enc[0] == "present" and not isinstance(enc[1], str):
        raise Malformed("encoding")
    if enc[0] == "present" and not re.fullmatch(r"[A-Za-z][A-Za-z0-9._-]*", enc[1]):
        raise Malformed("encoding is not an encoding name")
    if version[0] == "present" and isinstance(version[1], str) and not re.fullmatch(r"1\.[0-9]+", version[1]):
        raise Malformed("version")
    node = expected_node(root[1])
    if node[0] != "elem":
        raise Malformed("the root of an XML document is an element")
    sa = t_get(w, "standalone")
    return {"version": version[1] if version[0] == "present" else None,
            "encoding": enc[1] if enc[0] == "present" else None,
            "standalone": sa[1] if (sa[0] == "present" and isinstance(sa[1], bool)) else None,
            "root": node}


# ---------------------------------------------------------------------------------------------
# independent parse

def xmltree(text):
    p = xml.parsers.expat.ParserCreate()
    p.buffer_text = True
    p.ordered_attributes = False
    decl = {}
    stack = [("doc", None, {}, [])]

    def start(name, attrs):
        node = ("elem", name, dict(attrs), [])
        stack[-1][3].append(node)
        stack.append(node)

    def end(name):
        stack.pop()

    def chars(data):
        kids = stack[-1][3]
        if kids and kids[-1][0] == "text":
            kids[-1] = ("text", kids[-1][1] + data)
        else:
            kids.append(("text", data))

    def xmldecl(version, encoding, standalone):
        decl["version"] = version
        decl["encoding"] = encoding
        decl["standalone"] = standalone

    p.StartElementHandler = start
    p.EndElementHandler = end
    p.CharacterDataHandler = chars
    p.XmlDeclHandler = xmldecl
    p.Parse(text.encode("utf-8") if isinstance(text, str) else text, True)
    roots = [k for k in stack[0][3] if k[0] == "elem"]
    if len(roots) != 1:
        raise xml.parsers.expat.ExpatError("document has %d root elements" % len(roots))
    return decl, roots[0]


def gaps(children):
    """children -> (elements, texts) with texts[i] = concatenated text in the gap before element i
    (texts has len(elements)+1 entries)"""
    elems = []
    texts = [""]
    for c in children:
        if c[0] == "text":
            texts[-1] += c[1]
        else:
            elems.append(c)
            texts.append("")
    return elems, texts


def split_ns(attrs, scope):
    """-> (plain attributes, namespace bindings in scope at this element)"""
    scope = dict(scope)
    plain = {}
    for k, v in attrs.items():
        if k == "xmlns":
            scope[""] = v
        elif k.startswith("xmlns:"):
            scope[k[6:]] = v
        else:
            plain[k] = v
    return plain, scope


def tree_diff(exp, act, path, escope=None, ascope=None):
    """Namespace declarations are compared as the bindings in scope at each element: a writer
    may leave out a declaration the element inherits unchanged (corrected after a false alarm of
    the first version, which compared raw xmlns attributes)."""
    if exp[1] != act[1]:
        return "%s: element name %r, parsed %r" % (path, exp[1], act[1])
    eattrs, escope = split_ns(exp[2], escope or {})
    aattrs, ascope = split_ns(act[2], ascope or {})
    if eattrs != aattrs:
        return "%s/%s: attributes %r, parsed %r" % (path, exp[1], eattrs, aattrs)
    if escope != ascope:
        return "%s/%s: namespaces in scope %r, parsed %r" % (path, exp[1], escope, ascope)
    ee, et = gaps(exp[3])
    ae, at = gaps(act[3])
    here = "%s/%s" % (path, exp[1])
    if len(ee) != len(ae):
        return "%s: %d child elements, parsed %d" % (here, len(ee), len(ae))
    for i, (a, b) in enumerate(zip(et, at)):
        if a != "":
            if a != b:
                return "%s: text in gap %d is %r, parsed %r" % (here, i, a, b)
        elif b.strip(" \t\r\n") != "":
            return "%s: no text described in gap %d, parsed %r" % (here, i, b)
    for i, (a, b) in enumerate(zip(ee, ae)):
        d = tree_diff(a, b, "%s[%d]" % (here, i), escope, ascope)
        if d:
            return d
    return None


# ---------------------------------------------------------------------------------------------
# generation

def elem(name="e", attrs=("absent",), ns=("absent",), children=("absent",)):
    f = [("name", name)]
    if attrs[0] != "absent":
        f.append(("attrs", attrs[1]))
    if ns[0] != "absent":
        f.append(("ns", ns[1]))
    if children[0] != "absent":
        f.append(("children", children[1]))
    return T(*f)


def P(v):
    return ("present", v)


def shapes(depth):
    """node shapes with fixed names and text"""
    leaf = ["t", T(("text", "t")), elem("l")]
    if depth == 0:
        return leaf
    sub = shapes(depth - 1)
    out = list(leaf) + [elem("c", children=P(None)), elem("c", children=P(L()))]
    for k in sub:
        out.append(elem("c", children=P(L(k))))
    if depth <= 2:
        for a, b in itertools.product(sub if depth == 1 else sub[:8], repeat=2):
            out.append(elem("c", children=P(L(a, b))))
    return out


def documents(thorough):
    """yields (class, doc wire value)"""
    def doc(root, **kw):
        f = [(k, v) for k, v in kw.items()]
        f.append(("root", root))
        return T(*f)
    # structure
    for k in shapes(3 if thorough else 2):
        if isinstance(k, dict) and t_get(k, "name")[0] == "present":
            yield "structure", doc(k)
        yield "structure-under-root", doc(elem("r", children=P(L(k))))
        yield "structure-between", doc(elem("r", children=P(L(elem("x"), k, elem("y")))))
    # text pool in positions
    for i, s in enumerate(TEXTS):
        for form in (s, T(("text", s))):
            yield "text-only-child|%d" % i, doc(elem("r", children=P(L(form))))
            yield "text-first|%d" % i, doc(elem("r", children=P(L(form, elem("x")))))
            yield "text-last|%d" % i, doc(elem("r", children=P(L(elem("x"), form))))
            yield "text-between|%d" % i, doc(elem("r", children=P(L(elem("x"), form, elem("y")))))
            yield "text-adjacent|%d" % i, doc(elem("r", children=P(L(form, "|", form))))
            yield "text-deep|%d" % i, doc(elem("r", children=P(L(elem("m", children=P(L(elem("i", children=P(L(form))))))))))
    # attributes
    for i, s in enumerate(TEXTS):
        yield "attr-value|%d" % i, doc(elem("r", attrs=P(T(("k", s)))))
        yield "attr-value-2|%d" % i, doc(elem("r", attrs=P(T(("k", s), ("j", "v")))))
        yield "attr-value-child|%d" % i, doc(elem("r", children=P(L(elem("c", attrs=P(T(("k", s))))))))
    for a in [("absent",), P(None), P(T()), P(T(("k", "v"))), P(T(("k", "v"), ("j", "w"))), P(T(("k", None))), P(T(("k", None), ("j", "w"))),
              P(T(("a-b", "v"), ("_c", "w"), ("A.d", "x")))]:
        for c in [("absent",), P(None), P(L()), P(L("t"))]:
            yield "attr-set", doc(elem("r", attrs=a, children=c))
    # names
    for n in NAMES:
        yield "names", doc(elem(n, attrs=P(T((n, "v"))), children=P(L(elem(n)))))
    # namespaces
    ns_forms = [("absent",), P(None), P("http://example.org/d"), P(T(("prefix", "p"), ("uri", "http://example.org/p"))),
                P(T(("prefix", None), ("uri", "http://example.org/p"))), P(T(("uri", "http://example.org/p"))), P(T())]
    for n1 in ns_forms:
        for n2 in ns_forms:
            pre = "p:" if (n1[0] == "present" and is_tuple(n1[1]) and dict(map(tuple, n1[1]["t"])).get("prefix") == "p") else ""
            yield "namespaces", doc(elem(pre + "r", ns=n1, children=P(L(elem(pre + "c", ns=n2), elem("d")))))
    # namespace URIs are attribute values too: the XML-significant strings as default and as prefixed namespace
    for i, u in enumerate(TEXTS):
        if not u.strip():
            continue
        yield "ns-uri-default|%d" % i, doc(elem("r", ns=P(u), children=P(L(elem("c")))))
        yield "ns-uri-prefixed|%d" % i, doc(elem("p:r", ns=P(T(("prefix", "p"), ("uri", u))), children=P(L(elem("p:c")))))
        yield "ns-uri-child|%d" % i, doc(elem("r", children=P(L(elem("c", ns=P(u)), "t"))))
    # characters an XML 1.0 document cannot carry at all (not even as a character reference): the description is not an XML document
    for i, ch in enumerate(["\u0001", "\u0008", "\u000b", "\u000c", "\u001f", "\ufffe", "\uffff"]):
        yield "unrepresentable-char-in-text|%d" % i, doc(elem("r", children=P(L("a" + ch + "b"))))
        yield "unrepresentable-char-in-attribute|%d" % i, doc(elem("r", attrs=P(T(("k", "a" + ch + "b")))))
        yield "unrepresentable-char-in-default-namespace|%d" % i, doc(elem("r", ns=P("urn:a" + ch + "b")))
        yield "unrepresentable-char-in-prefixed-namespace|%d" % i, doc(elem("p:r", ns=P(T(("prefix", "p"), ("uri", "urn:a" + ch + "b")))))
        yield "unrepresentable-char-in-child-namespace|%d" % i, doc(elem("r", children=P(L(elem("c", ns=P("urn:a" + ch + "b"))))))
    # a declared encoding other than the one the bytes are in
    for enc in ("ISO-8859-1", "utf-16", "us-ascii"):
        yield "encoding-declared:%s" % enc, T(("encoding", enc), ("root", elem("r", children=P(L("é")))))
    yield "encoding-empty", T(("encoding", ""), ("root", elem("r")))
    yield "encoding-blank", T(("encoding", " "), ("root", elem("r")))
    yield "encoding-value-with-quote", T(("encoding", 'utf-8" standalone="yes'), ("root", elem("r")))
    yield "version-value-with-quote", T(("version", '1.0" encoding="x'), ("root", elem("r")))
    # a prefix bound, re-bound and bound back three levels deep; a default namespace undeclared with ""
    for a, b in (("urn:A", "urn:B"),):
        pa, pb = T(("prefix", "p"), ("uri", a)), T(("prefix", "p"), ("uri", b))
        inner_p = elem("p:i", ns=P(pa))
        inner_d = elem("i", ns=P(a))
        yield "ns-rebound-and-back:prefixed", doc(elem("top", children=P(L(elem("g", ns=P(pa), children=P(L(elem("h", ns=P(pb), children=P(L(inner_p))))))))))
        yield "ns-rebound-and-back:default", doc(elem("top", children=P(L(elem("g", ns=P(a), children=P(L(elem("h", ns=P(b), children=P(L(inner_d))))))))))
    # namespaces on siblings: what one element declares ends with that element, whatever form its children field has
    # (absent, NULL, empty, one child), and a later sibling that declares the same binding gets its own declaration
    # (added after a sixth-round seeded change: a scope kept by the writer's caller was not closed for elements without a children list)
    A_, B_ = "urn:A", "urn:B"
    sib_ns = [("absent",), P(A_), P(B_), P(T(("prefix", "p"), ("uri", A_))), P(T(("prefix", "p"), ("uri", B_)))]
    kid_forms = ["absent", "null", "empty", "one"]

    def sibling(i, n, kf):
        pre = "p:" if (n[0] == "present" and is_tuple(n[1])) else ""
        ch = {"absent": ("absent",), "null": P(None), "empty": P(L()), "one": P(L(elem(pre + "k%d" % i)))}[kf]
        return elem(pre + "s%d" % i, ns=n, children=ch)
    for top_ns in [("absent",), P(A_), P(T(("prefix", "q"), ("uri", A_)))]:
        for combo in itertools.product(itertools.product(sib_ns, kid_forms), repeat=2):
            yield "ns-siblings-2", doc(elem("top", ns=top_ns, children=P(L(*[sibling(i, n, kf) for i, (n, kf) in enumerate(combo)]))))
        for combo in itertools.product(itertools.product(sib_ns, ["absent", "one"]), repeat=3):
            yield "ns-siblings-3", doc(elem("top", ns=top_ns, children=P(L(*[sibling(i, n, kf) for i, (n, kf) in enumerate(combo)]))))
    # an attribute spelled like the declaration the ns field writes: `xmlns` and `xmlns:p` are XML names, so the tuple is
    # inside the quantifier; whatever the converter makes of it (refuse, or one declaration) the output must be well-formed
    # (a sixth-round remark about the unchanged tree). Judged on well-formedness only, see work().
    pq = T(("prefix", "p"), ("uri", A_))
    for where in ("root", "child"):
        for attrs, n in ((T(("xmlns", B_)), P(A_)), (T(("xmlns", A_)), P(A_)), (T(("xmlns:p", B_)), P(pq)), (T(("k", "v"), ("xmlns:p", A_)), P(pq)),
                         (T(("xmlns", None)), P(A_)), (T(("xmlns:p", None)), P(pq)), (T(("xmlns", B_)), ("absent",)), (T(("xmlns:p", B_)), ("absent",)),
                         (T(("xmlns:p", B_)), P(A_)), (T(("xmlns", B_)), P(pq))):
            e = elem("e", attrs=P(attrs), ns=n)
            yield "xmlns-attribute-beside-ns:%s" % where, doc(e if where == "root" else elem("r", children=P(L(e))))
    # declaration
    for v in [("absent",), P("1.0"), P("1.1"), P("2.0"), P("1"), P(None), P({"i": "1"})]:
        for e in [("absent",), P("utf-8"), P("UTF-8")]:
            for sa in [("absent",), P(True), P(False), P("yes")]:
                f = []
                if v[0] == "present":
                    f.append(("version", v[1]))
                if e[0] == "present":
                    f.append(("encoding", e[1]))
                if sa[0] == "present":
                    f.append(("standalone", sa[1]))
                f.append(("root", elem("r")))
                yield "declaration", T(*f)
    # malformed documents, one of each kind, at root and below it
    bad_nodes = [("number", {"i": "1"}), ("list", L("t")), ("bool", True), ("null", None), ("name-and-text", T(("name", "x"), ("text", "t"))),
                 ("attrs-not-tuple", T(("name", "x"), ("attrs", "s"))), ("attrs-list", T(("name", "x"), ("attrs", L()))),
                 ("children-not-list", T(("name", "x"), ("children", "s"))), ("children-tuple", T(("name", "x"), ("children", T()))),
                 ("attr-value-int", T(("name", "x"), ("attrs", T(("k", {"i": "1"}))))), ("attr-value-list", T(("name", "x"), ("attrs", T(("k", L()))))),
                 ("nameless-tuple", T(("nm", "x"))), ("empty-tuple", T()), ("name-not-string", T(("name", {"i": "1"}))),
                 ("text-not-string", T(("text", {"i": "1"}))), ("ns-number", T(("name", "x"), ("ns", {"i": "1"})))]
    for kind, n in bad_nodes:
        yield "malformed-root:" + kind, doc(n)
        yield "malformed-child:" + kind, doc(elem("r", children=P(L(n))))
        yield "malformed-deep:" + kind, doc(elem("r", children=P(L("t", elem("m", children=P(L(elem("ok"), n)))))))
    # field order: the converter reads a node's fields in the order they were written, so every
    # order of every field set is a different path through its loop
    full = [("name", "f"), ("attrs", T(("k", "v"))), ("ns", "http://example.org/d"), ("children", L("t", elem("g")))]
    for perm in itertools.permutations(full):
        yield "field-order", doc(T(*perm))
        yield "field-order", doc(elem("r", children=P(L(T(*perm), elem("z")))))
    bad_sets = [("name-and-text", [("name", "x"), ("text", "t")]),
                ("name-and-text+attrs", [("name", "x"), ("text", "t"), ("attrs", T(("k", "v")))]),
                ("name-and-text+children", [("name", "x"), ("text", "t"), ("children", L("u"))]),
                ("name-and-text+ns", [("name", "x"), ("text", "t"), ("ns", "http://example.org/d")]),
                ("name-and-null-text", [("name", "x"), ("text", None), ("children", L("u"))]),
                ("text-and-attrs", [("text", "t"), ("attrs", T(("k", "v")))]),
                ("text-and-children", [("text", "t"), ("children", L("u"))]),
                ("name-not-string+children", [("name", {"i": "1"}), ("children", L("u"))]),
                ("attrs-not-tuple+children", [("name", "x"), ("attrs", "s"), ("children", L("u"))]),
                ("children-not-list+attrs", [("name", "x"), ("children", "s"), ("attrs", T(("k", "v")))])]
    for kind, fields in bad_sets:
        for perm in itertools.permutations(fields):
            order = "-".join(k for k, _ in perm)
            yield "field-order-root:%s:%s" % (kind, order), doc(T(*perm))
            yield "field-order-child:%s:%s" % (kind, order), doc(elem("r", children=P(L(T(*perm)))))
            yield "field-order-deep:%s:%s" % (kind, order), doc(elem("r", children=P(L("t", elem("m", children=P(L(elem("ok"), T(*perm))))))))
    for perm in itertools.permutations([("version", "1.1"), ("encoding", "utf-8"), ("standalone", True), ("root", elem("r", children=P(L("t"))))]):
        yield "field-order-document", T(*perm)
    yield "malformed:no-root", T(("version", "1.0"))
    yield "malformed:empty-doc", T()
    yield "malformed:doc-not-tuple", L()
    yield "malformed:doc-string", "s"
    yield "malformed-root:bare-string", doc("text")
    yield "malformed-root:text-tuple", doc(T(("text", "t")))


def judge(w, resp):
    try:
        exp = expected_doc(w)
    except Malformed as m:
        exp = None
        why = str(m)
    if "panic" in resp or "abort" in resp or "hang" in resp:
        return "CRASH", resp
    if "err" in resp:
        if exp is None:
            return "err=err", None
        return "REJECTS-VALID-DOCUMENT", resp["err"][:200]
    text = resp["ok"].get("utf8")
    if text is None:
        return "NON-UTF8-OUTPUT", resp["ok"]
    if exp is None:
        return "ACCEPTS-MALFORMED", {"why": why, "text": text[:300]}
    try:
        decl, root = xmltree(text)
    except xml.parsers.expat.ExpatError as e:
        return "NOT-WELL-FORMED", {"parser": str(e), "text": text[:400]}
    d = tree_diff(exp["root"], root, "")
    if d:
        return "TREE-DIFFERS", {"diff": d, "text": text[:400]}
    if exp["version"] is not None and decl.get("version") != exp["version"]:
        return "DECLARATION-DIFFERS", {"diff": "version %r, parsed %r" % (exp["version"], decl.get("version")), "text": text[:200]}
    if exp["encoding"] is not None and (decl.get("encoding") or "").lower() != exp["encoding"].lower():
        return "DECLARATION-DIFFERS", {"diff": "encoding %r, parsed %r" % (exp["encoding"], decl.get("encoding")), "text": text[:200]}
    if exp["standalone"] is not None and decl.get("standalone") != (1 if exp["standalone"] else 0):
        return "DECLARATION-DIFFERS", {"diff": "standalone %r, parsed %r" % (exp["standalone"], decl.get("standalone")), "text": text[:200]}
    return "ok=ok", None


def work(chunk):
    srv = core.worker_server()
    resps = srv.req_many([{"op": "convert", "fmt": "xml", "val": w} for _, w in chunk])
    hist = {}
    viol = []
    for (cls, w), rs in zip(chunk, resps):
        if cls.startswith("xmlns-attribute-beside-ns"):
            oc, detail = "refused", None
            if "ok" in rs:
                oc = "written-well-formed"
                try:
                    xmltree(rs["ok"].get("utf8") or "")
                except xml.parsers.expat.ExpatError as e:
                    oc, detail = "NOT-WELL-FORMED", {"parser": str(e), "text": (rs["ok"].get("utf8") or "")[:400]}
            elif "err" not in rs:
                oc, detail = "CRASH", rs
        else:
            oc, detail = judge(w, rs)
        k = "%s:%s" % (cls.split(":")[0].split("|")[0], oc)
        hist[k] = hist.get(k, 0) + 1
        if detail is not None:
            viol.append((cls, w, oc, detail))
    return {"evals": len(chunk), "hist": hist, "viol": viol, "sample": chunk[len(chunk) // 2][1] if chunk else None}


def text_feature(s):
    f = []
    for ch, nm in (("\t", "tab"), ("\n", "lf"), ("\r", "cr"), ("\u0085", "nel"), (" ", "ls")):
        if ch in s:
            f.append(nm)
    if s != s.strip(" ") or s == " ":
        f.append("edge-blank")
    return "+".join(f) or "other"


def run(ctx):
    thorough = ctx.tier == "thorough"
    docs = list(documents(thorough))
    ctx.bounds = {"texts": len(TEXTS), "structure_depth": 3 if thorough else 2, "documents": len(docs)}
    ctx.rule = ("document tuples: every node-shape tree to depth %d (element / bare string / {text=} leaves, children absent / NULL / [] / 1..2 "
                "nodes) as root, under a root and between siblings; %d XML-significant strings as text in 6 positions x 2 text forms and as "
                "attribute values in 3 positions; 8 attribute sets x 4 children forms; 5 name forms; 7 x 7 namespace forms on parent and child; "
                "the same strings as namespace URI in 3 positions; 7 x 3 x 4 declaration options; 16 malformed node kinds at 3 depths + 6 malformed documents; every order of the fields of a full element "
                "(24, as root and as child), of 10 field sets that mix name/text/attrs/children validly and invalidly (at 3 depths) and of the "
                "document's own fields (24). All distinct; non-trivial = the "
                "converter answered and the answer was judged." % (3 if thorough else 2, len(TEXTS)))
    viol = []
    for part in core.pmap(work, docs, chunk=120):
        ctx.count(part["evals"], part["evals"])
        for k, v in part["hist"].items():
            ctx.outcome(k, v)
        if part["sample"] is not None:
            ctx.sample(part["sample"])
        viol.extend(part["viol"])
    viol.sort(key=lambda v: len(core.json.dumps(v[1])))
    seen = {}
    for cls, w, oc, detail in viol:
        if cls.startswith(("malformed", "field-order-")):
            sig = "%s:%s" % (oc, cls)
        elif cls.startswith("ns-uri"):
            s = TEXTS[int(cls.split("|")[1])]
            feat = text_feature(s)
            if feat == "other":
                feat = "+".join(n for ch, n in (("&", "amp"), ("<", "lt"), (">", "gt"), ('"', "quot"), ("'", "apos")) if ch in s) or "other"
            sig = "%s:ns-uri:%s" % (oc, feat)
        elif cls.startswith(("text", "attr-value")):
            s = TEXTS[int(cls.split("|")[1])]
            sig = "%s:%s:%s" % (oc, "attr-value" if cls.startswith("attr-value") else "text", text_feature(s))
        else:
            sig = "%s:%s:%s" % (oc, cls, str((detail.get("diff") or detail.get("why") or detail.get("parser")) if isinstance(detail, dict) else detail)[:60])
        if sig in seen:
            ctx.violations[sig]["count"] += 1
            continue
        seen[sig] = 1
        ctx.violation(sig, "%s for %s" % (oc, core.json.dumps(w, ensure_ascii=False)[:200]), {"kind": "xml", "val": w, "class": oc, "detail": detail})


def replay(case):
    srv = core.Server()
    try:
        rs = srv.req({"op": "convert", "fmt": "xml", "val": case["val"]})
    finally:
        srv.close()
    oc, detail = judge(case["val"], rs)
    return detail is None, {"outcome": oc, "detail": detail}
