"""C13 — `ucg test` reports a file as passing exactly when all its assertions hold.

Model checking by trace replay (E3) plus explicit-state search over the real Environment (E2).

Model: a test file is a sequence of statements of 7 kinds; verdict(file) = PASS iff the file
builds and every evaluated assertion has ok = true (an assert value that is not a tuple with a
boolean ok and a string desc is a failure); log(file) = one line per evaluated assertion;
an invocation is a sequence of files; exit = 0 iff all PASS; verdict and log of a file are
functions of the file alone.

E3: every model trace (each file alone; every ordered sequence of distinct files of a
representative set, as explicit arguments and through -r) is replayed against the real binary
and every observable step compared. E2: the same file histories over one in-process
Environment (validate mode), state = collector + caches, invariant = result in state s equals
result in the initial state.
"""
import itertools
import os
import re
import shutil
import tempfile

from vf import core

LEVEL = "model_checking"

KINDS = {
    "T": 'assert {ok = true, desc = "t%d"};',
    "F": 'assert {ok = false, desc = "f%d"};',
    "N": 'assert idf(%d);',                             # not a tuple (hidden from the static checker)
    "B": 'assert {ok = idf(%d), desc = "b"};',          # ok not a boolean (hidden from the checker)
    "D": 'assert {ok = idf(true)};%.0s',                # desc missing
    "E": 'let e%d = fail "boom";',                      # evaluation error: nothing after it runs
    "I": 'let i%d = (import "./no_such_helper.ucg").x;',      # an import that cannot be loaded: the file does not build (nor does the next file that tries)
    "J": 'let j%d = (import "./broken_helper.ucg").x;',       # an import with a syntax error: the same
    # an assertion inside a module that is instantiated inside a function body / a map callback: evaluated once, counts like any other
    "M": 'let mm%d = module {} => { assert {ok = false, desc = "in module %d"}; };\nlet ff%d = func () => mm%d{};\nlet rr%d = ff%d();',
    "m": 'let mm%d = module {} => { assert {ok = true, desc = "in module %d"}; };\nlet ff%d = func () => mm%d{};\nlet rr%d = ff%d();',
    "C": 'let mm%d = module {} => { assert {ok = false, desc = "in callback %d"}; };\nlet rr%d = map(func (it) => mm%d{}, [0]);',
    "A": 'let a%d = (import "./lib_failing_assert.ucg").x;',  # a library with a failing assertion of its own: evaluated in this file, so it counts here
    "L": 'let v%d = 1 + 1;',                            # an ordinary statement
    "n": 'assert %d;',                                  # not a tuple, visible to the checker: the file does not build
    "b": 'assert {ok = %d, desc = "b"};',               # ok not a boolean, visible to the checker
}
ASSERT_OK = {"T": True, "F": False, "N": False, "B": False, "D": False, "A": False, "M": False, "m": True, "C": False}
STATIC = "nb"
# An identity the static checker cannot see through (a plain `func (x) => x` is typed as its
# argument since the checker binds a callee's parameters at the call): the select's NULL default
# makes the result "anything" for the checker, at run time the arm is taken and x comes back.
PRELUDE = "let idf = func (x) => select (\"a\", NULL) => {a = x};\n"


def file_text(kinds):
    return PRELUDE + "\n".join(KINDS[k].replace("%d", str(i)).replace("%.0s", "") for i, k in enumerate(kinds)) + "\n"


def model_file(kinds):
    """-> dict(builds, verdict, log=[bool per evaluated assertion])"""
    log = []
    builds = True
    if any(k in STATIC for k in kinds) or "J" in kinds or "I" in kinds:
        # rejected by the type checker before anything is evaluated (an imported file that is missing or does not parse is found when
        # the file's imports are read, which is before its first statement runs)
        return {"builds": False, "verdict": False, "log": []}
    for k in kinds:
        if k in "EIJ":
            builds = False
            break
        if k in ASSERT_OK:
            log.append(ASSERT_OK[k])
    verdict = builds and all(log)
    return {"builds": builds, "verdict": verdict, "log": log}


REPRESENTATIVE = {
    "pass": "T", "pass2": "TT", "fail": "F", "malformed": "N", "builderr": "TE", "noassert": "L", "passfail": "TF",
}
# files that share an import which cannot be loaded (used in their own sequences, see run())
SHARED_BROKEN = {"missing1": "IT", "missing2": "TI", "broken1": "JT", "broken2": "TJ", "libassert1": "AT", "libassert2": "TA"}
LIB_FAILING_ASSERT = 'let x = 1;\nassert {ok = false, desc = "library self check"};\n'
REPRESENTATIVE.update(SHARED_BROKEN)
BROKEN_HELPER = "let x = ;\n"


def parse_output(stdout, stderr, files):
    """Split stdout into per-file sections -> {file: dict(verdict_line, ok_lines, notok_lines)}, summary {file: PASS|FAIL}"""
    sections = {}
    cur = None
    summary = {}
    in_results = False
    for line in stdout.split("\n"):
        m = re.match(r"^Validating (.*)$", line)
        if m:
            cur = m.group(1)
            sections[cur] = {"verdict_line": None, "ok": 0, "notok": 0, "lines": []}
            in_results = False
            continue
        if line.startswith("RESULTS:"):
            in_results = True
            cur = None
            continue
        if in_results:
            m = re.match(r"^(.*) - (PASS|FAIL)$", line)
            if m:
                summary[m.group(1)] = m.group(2)
            continue
        if cur is None:
            continue
        m = re.match(r"^File (.*) (Pass|Fail)$", line)
        if m:
            sections[cur]["verdict_line"] = m.group(2)
            continue
        if re.match(r"^\d+ - OK: ", line):
            sections[cur]["ok"] += 1
        elif re.match(r"^\d+ - NOT OK: ", line):
            sections[cur]["notok"] += 1
        sections[cur]["lines"].append(line)
    return sections, summary


def run_trace(d, names, mode="args"):
    """names: files (relative to d) in invocation order."""
    if mode == "args":
        rc, out, err = core.run_ucg(["test"] + names, cwd=d)
    else:
        rc, out, err = core.run_ucg(["test", "-r", "."], cwd=d)
    return rc, out.decode("utf-8", "replace"), err.decode("utf-8", "replace")


def check_trace(files, order, mode, rc, out, err):
    """files: {name: kinds}. Returns list of (violation class, detail)."""
    viol = []
    if rc is None:
        return [("timeout", {})]
    # the property says "exits non-zero exactly when some file failed": any ordinary non-zero status is a failure verdict
    # (DESIGN 0.3 item 23); a panic (101) or a signal (negative here) is a crash, not a verdict
    if rc < 0 or rc == 101:
        return [("exit-status-%s" % rc, {"stderr": err[-400:]})]
    sections, summary = parse_output(out, err, order)
    models = {n: model_file(files[n]) for n in order}
    want_nonzero = not all(m["verdict"] for m in models.values())
    if (rc != 0) != want_nonzero:
        viol.append(("exit-status", {"expected": "non-zero" if want_nonzero else 0, "observed": rc}))
    for pos, n in enumerate(order):
        m = models[n]
        # a file whose failing assertion sits in a library that an earlier file of the run imported too
        tag = ":assertion-in-shared-import" if ("A" in files[n] and any("A" in files[x] for x in order[:pos])) else ""
        key = n if mode == "args" else None
        sec = None
        for k in sections:
            if os.path.basename(k) == n:
                sec = sections[k]
        earlier = [("fail" if not models[x]["verdict"] else "pass") for x in order[:pos]] if mode == "args" else ["?"]
        hist = "after[%s]" % ",".join(earlier)
        if sec is None:
            viol.append(("file-not-reported", {"file": n}))
            continue
        # verdict
        if m["builds"]:
            want_line = "Pass" if m["verdict"] else "Fail"
            if sec["verdict_line"] != want_line:
                viol.append(("verdict:%s-reported-%s%s:%s" % (want_line, sec["verdict_line"], tag, hist), {"file": n, "kinds": files[n]}))
        else:
            if sec["verdict_line"] == "Pass":
                viol.append(("verdict:builderror-reported-Pass:%s" % hist, {"file": n}))
        # log: every evaluated assertion exactly once, in this file's section -- also the ones evaluated before the
        # statement at which the build stopped (a sixth-round remark about the unchanged tree)
        if sec["ok"] != sum(1 for x in m["log"] if x) or sec["notok"] != sum(1 for x in m["log"] if not x):
            viol.append(("log%s%s:%s" % ("" if m["builds"] else ":before-build-error", tag, hist), {"file": n, "kinds": files[n], "expected_ok": sum(1 for x in m["log"] if x),
                                            "expected_not_ok": sum(1 for x in m["log"] if not x), "observed_ok": sec["ok"], "observed_not_ok": sec["notok"]}))
        # RESULTS summary
        want_sum = "PASS" if m["verdict"] else "FAIL"
        got = None
        for k, v in summary.items():
            if os.path.basename(k) == n:
                got = v
        if got != want_sum:
            viol.append(("summary:%s-reported-%s%s:%s" % (want_sum, got, tag, hist), {"file": n}))
    return viol


def work_alone(chunk):
    """chunk: list of kinds strings; each file tested alone in a fresh directory"""
    hist = {}
    viol = []
    d = tempfile.mkdtemp(prefix="ucgverif-c13-")
    try:
        for kinds in chunk:
            name = "x_test.ucg"
            with open(os.path.join(d, name), "w") as f:
                f.write(file_text(kinds))
            rc, out, err = run_trace(d, [name])
            v = check_trace({name: kinds}, [name], "args", rc, out, err)
            m = model_file(kinds)
            k = "alone:%s:%s" % ("PASS" if m["verdict"] else ("FAIL" if m["builds"] else "BUILD-ERROR"), "agrees" if not v else "VIOLATION")
            hist[k] = hist.get(k, 0) + 1
            for cls, det in v:
                viol.append((cls, {"files": {name: kinds}, "order": [name], "mode": "args"}, det))
    finally:
        shutil.rmtree(d, ignore_errors=True)
    return {"evals": len(chunk), "hist": hist, "viol": viol, "states": 0, "transitions": 0}


def work_seq(chunk):
    """chunk: list of (order tuple of representative names, mode)"""
    hist = {}
    viol = []
    for order, mode in chunk:
        d = tempfile.mkdtemp(prefix="ucgverif-c13-")
        try:
            files = {}
            for i, n in enumerate(order):
                fn = "%s_test.ucg" % n
                files[fn] = REPRESENTATIVE[n]
                # nested: the files are spread over the directory, a sub-directory and one below that
                sub = ["", "sub", os.path.join("sub", "deep")][(i + (1 if mode.endswith("-1") else 0)) % 3] if mode.startswith("recursive-nested") else ""
                os.makedirs(os.path.join(d, sub), exist_ok=True)
                with open(os.path.join(d, sub, "broken_helper.ucg"), "w") as f:
                    f.write(BROKEN_HELPER)
                with open(os.path.join(d, sub, "lib_failing_assert.ucg"), "w") as f:
                    f.write(LIB_FAILING_ASSERT)
                with open(os.path.join(d, sub, fn), "w") as f:
                    f.write(file_text(REPRESENTATIVE[n]))
            names = ["%s_test.ucg" % n for n in order]
            rc, out, err = run_trace(d, names, mode)
            v = check_trace(files, names, mode, rc, out, err)
            k = "seq%d-%s:%s" % (len(order), mode, "agrees" if not v else "VIOLATION")
            hist[k] = hist.get(k, 0) + 1
            for cls, det in v:
                viol.append((cls, {"files": files, "order": names, "mode": mode}, det))
        finally:
            shutil.rmtree(d, ignore_errors=True)
    return {"evals": len(chunk), "hist": hist, "viol": viol, "states": 0, "transitions": 0}


def work_e2(chunk):
    """Explicit-state search over the real Environment: each item is a history (tuple of
    representative names). The history is replayed over one named Environment; after every
    build the observable result (build ok, assert_ok, number of log lines) is compared with the
    result of the same file in the initial state."""
    srv = core.worker_server()
    hist = {}
    viol = []
    states = set()
    transitions = 0
    d = tempfile.mkdtemp(prefix="ucgverif-c13e2-")
    try:
        paths = {}
        with open(os.path.join(d, "broken_helper.ucg"), "w") as f:
            f.write(BROKEN_HELPER)
        with open(os.path.join(d, "lib_failing_assert.ucg"), "w") as f:
            f.write(LIB_FAILING_ASSERT)
        for n, kinds in REPRESENTATIVE.items():
            p = os.path.join(d, "%s_test.ucg" % n)
            with open(p, "w") as f:
                f.write(file_text(kinds))
            paths[n] = p

        def observe(rs):
            lines = [ln for ln in (rs.get("assert_summary") or "").split("\n") if re.match(r"^\d+ - (NOT )?OK: ", ln)]
            return ("ok" in rs, rs.get("assert_ok"), len(lines))
        baseline = {}
        for n in REPRESENTATIVE:
            srv.req({"op": "env_new", "id": "b"})
            baseline[n] = observe(srv.req({"op": "build", "path": paths[n], "validate": True, "env": "b"}))
            srv.req({"op": "env_drop", "id": "b"})
        for history in chunk:
            srv.req({"op": "env_new", "id": "h"})
            for i, n in enumerate(history):
                rs = srv.req({"op": "build", "path": paths[n], "validate": True, "env": "h"})
                if "panic" in rs or "bad_request" in rs:
                    viol.append(("e2:crash", {"history": list(history)}, rs))
                    break
                transitions += 1
                st = srv.req({"op": "env_state", "id": "h"}).get("ok", {})
                states.add(core.json.dumps([st.get("assert"), sorted(os.path.basename(x) for x in st.get("val_cache", []))]))
                if i == len(history) - 1:
                    obs = observe(rs)
                    if obs != baseline[n]:
                        earlier = ",".join("fail" if not model_file(REPRESENTATIVE[x])["verdict"] else "pass" for x in history[:-1])
                        viol.append(("e2:result-depends-on-history%s:after[%s]" % (":assertion-in-shared-import" if "A" in REPRESENTATIVE[n] else "", earlier),
                                     {"history": list(history)}, {"alone": baseline[n], "in_history": obs, "file": n}))
                        hist["e2:VIOLATION"] = hist.get("e2:VIOLATION", 0) + 1
                    else:
                        hist["e2:same-as-alone"] = hist.get("e2:same-as-alone", 0) + 1
            srv.req({"op": "env_drop", "id": "h"})
    finally:
        shutil.rmtree(d, ignore_errors=True)
    return {"evals": len(chunk), "hist": hist, "viol": viol, "states": len(states), "transitions": transitions, "state_keys": list(states)}


def work_many(chunk):
    """chunk: list of (number of failing inputs, number of passing inputs, 'distinct' | 'repeated'): one invocation with that many
    explicit arguments. The exit status is 8 bits wide: a status computed from a count comes out as 0 at 256."""
    hist = {}
    viol = []
    for nfail, npass, how in chunk:
        d = tempfile.mkdtemp(prefix="ucgverif-c13m-")
        try:
            names = []
            if how == "distinct":
                for i in range(nfail):
                    names.append("f%03d_test.ucg" % i)
                for i in range(npass):
                    names.append("p%03d_test.ucg" % i)
            else:
                names = ["f000_test.ucg"] * nfail + ["p000_test.ucg"] * npass
            for n in set(names):
                with open(os.path.join(d, n), "w") as f:
                    f.write(file_text("F" if n.startswith("f") else "T"))
            rc, out, err = run_trace(d, names)
            nlines_fail = len(re.findall(r"^File .* Fail$", out, re.M))
            nlines_pass = len(re.findall(r"^File .* Pass$", out, re.M))
            bad = None
            if rc is None or rc < 0 or rc == 101:
                bad = "many-inputs:exit-status-%s" % rc
            elif (rc != 0) != (nfail > 0):
                bad = "many-inputs:exit-status-%d-with-%d-failing-inputs" % (rc, nfail)
            elif (nlines_fail, nlines_pass) != (nfail, npass):
                bad = "many-inputs:verdict-lines"
            k = "many-inputs:%s" % ("agrees" if bad is None else "VIOLATION")
            hist[k] = hist.get(k, 0) + 1
            if bad:
                viol.append((bad, {"many": [nfail, npass, how]}, {"rc": rc, "fail_lines": nlines_fail, "pass_lines": nlines_pass, "stderr": err[-300:]}))
        finally:
            shutil.rmtree(d, ignore_errors=True)
    return {"evals": len(chunk), "hist": hist, "viol": viol, "states": 0, "transitions": 0}


def run(ctx):
    thorough = ctx.tier == "thorough"
    maxlen = 5 if thorough else 4
    seqlen = 4 if thorough else 3
    e2depth = 4 if thorough else 3
    kinds = "TFNBDE"
    files = [""] + ["".join(p) for ln in range(1, maxlen + 1) for p in itertools.product(kinds, repeat=ln)]
    files += ["".join(p) for ln in range(1, 3) for p in itertools.product(kinds + STATIC, repeat=ln) if any(c in STATIC for c in p)]
    files += ["".join(p) for ln in range(1, 4) for p in itertools.product("TFMmC", repeat=ln) if any(c in "MmC" for c in p)]
    reps = [r for r in REPRESENTATIVE if r not in SHARED_BROKEN]
    shared = list(SHARED_BROKEN) + ["pass", "fail"]
    seqs = [(o, "args") for ln in range(1, 4) for o in itertools.permutations(shared, ln) if any(x in SHARED_BROKEN for x in o)]
    seqs += [(o, "args") for ln in range(1, seqlen + 1) for o in itertools.permutations(reps, ln)]
    seqs += [(o, "recursive") for ln in range(2, 4) for o in itertools.combinations(reps, ln)]
    seqs += [(o, mode) for ln in range(1, 4) for o in itertools.permutations(reps, ln) for mode in ("recursive-nested", "recursive-nested-1")]
    histories = [h for ln in range(1, e2depth + 1) for h in itertools.product(reps, repeat=ln)]
    histories += [h for ln in range(1, 4) for h in itertools.product(shared, repeat=ln) if any(x in SHARED_BROKEN for x in h)]
    ctx.bounds = {"file_length": maxlen, "assertion_kinds": len(kinds), "sequence_length": seqlen, "representative_files": len(reps), "e2_depth": e2depth}
    viol = []
    states = set()
    transitions = 0
    traces = 0

    def absorb(part, is_trace=True):
        nonlocal transitions, traces
        ctx.count(part["evals"], part["evals"])
        for k, v in part["hist"].items():
            ctx.outcome(k, v)
        viol.extend(part["viol"])
        transitions += part["transitions"]
        for s in part.get("state_keys", []):
            states.add(s)
        if is_trace:
            traces += part["evals"]

    for part in core.pmap(work_alone, files, chunk=25):
        absorb(part)
    for part in core.pmap(work_seq, seqs, chunk=6):
        absorb(part)
    for part in core.pmap(work_e2, histories, chunk=12):
        absorb(part, is_trace=False)
    many = [(nf, np_, how) for nf in (0, 1, 2, 3, 255, 256, 257, 512) for np_ in (0, 1) for how in ("distinct", "repeated") if nf + np_ > 0]
    for part in core.pmap(work_many, many, chunk=2):
        absorb(part)
    ctx.sample({"file": file_text("TFE"), "alone": "ucg test x_test.ucg"})
    ctx.sample({"trace": ["fail_test.ucg", "pass_test.ucg"], "model": {"fail_test.ucg": "Fail", "pass_test.ucg": "Pass", "exit": 1}})
    ctx.sample({"e2_history": ["fail", "pass", "passfail"]})
    ctx.rule = ("E3: every test file of 0..%d statements over 6 kinds (true, false, not-a-tuple, ok-not-bool, desc-missing, evaluation error) alone; "
                "every ordered sequence of 1..%d distinct files of 7 representative files as explicit arguments and every 2- and 3-subset "
                "through -r; each trace replayed against the real `ucg test` and compared per file (verdict line, OK/NOT OK line counts in "
                "that file's section, RESULTS line) and on exit status. E2: every history of 1..%d builds over the 7 files in one in-process "
                "Environment, result of the last build compared with the same build in the initial state. Also one invocation with 0..3, 255, 256, 257 and 512 failing inputs (distinct files and one file repeated), alone and followed by a passing one." % (maxlen, seqlen, e2depth))
    # traces executed by the two engines
    ctx.coverage_extra.update({"states": max(1, len(states)), "transitions": max(1, transitions), "traces_validated_against_impl": traces,
                               "model_files": len(files), "model_sequences": len(seqs), "e2_histories": len(histories)})
    seen = {}
    for cls, trace, det in sorted(viol, key=lambda v: (len(str(v[1])), str(v[1]))):
        if cls in seen:
            ctx.violations[cls]["count"] += 1
            continue
        seen[cls] = 1
        ctx.violation(cls, "%s in %s" % (cls, core.json.dumps(trace)[:200]), {"kind": "trace", "trace": trace, "detail": det})


def replay(case):
    tr = case["trace"]
    if "many" in tr:
        part = work_many([tuple(tr["many"])])
        return not part["viol"], {"violations": part["viol"]}
    if "history" in tr:
        core._WORKER_SERVER = None
        part = work_e2([tuple(tr["history"])])
        core.worker_server().close()
        core._WORKER_SERVER = None
        return not part["viol"], {"violations": part["viol"]}
    d = tempfile.mkdtemp(prefix="ucgverif-c13-")
    try:
        for fn, kinds in tr["files"].items():
            with open(os.path.join(d, fn), "w") as f:
                f.write(file_text(kinds))
        rc, out, err = run_trace(d, tr["order"], tr["mode"])
        v = check_trace(tr["files"], tr["order"], tr["mode"], rc, out, err)
        return not v, {"rc": rc, "stdout": out[-1500:], "violations": v}
    finally:
        shutil.rmtree(d, ignore_errors=True)
