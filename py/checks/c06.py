"""C06 — a `::` constraint on a let binding admits exactly the conforming values.

E1 through FileBuilder::build(path) (type checker and VM): the full cross product of a constraint
grammar (primitive, tuple and list exemplars; int/float ranges closed and half-open;
alternations of 1..4 arms) x a value pool (literals of every type, sub/super/equal/disjoint
tuples and lists, range boundary values, computed values, NULL) x three spellings (inline,
behind a `constraint` name, behind a let-bound exemplar) is built; the oracle is a conformance
predicate written from the property text and reference/typechecking.md. Independently of the
predicate, the spellings of one constraint must give the same verdict on every value.
"""
import itertools
import os
import shutil
import tempfile

from vf import core

LEVEL = "exploration"

# values/exemplars: ("int", n) ("float", x) ("str", s) ("bool", b) ("null",) ("tuple", [(k, v)]) ("list", [v])


def lit(v):
    k = v[0]
    if k == "int":
        return str(v[1]) if v[1] >= 0 else "(0 - %d)" % -v[1]
    if k == "float":
        return repr(float(v[1])) if v[1] >= 0 else "(0.0 - %r)" % -float(v[1])
    if k == "str":
        return '"%s"' % v[1]
    if k == "bool":
        return "true" if v[1] else "false"
    if k == "null":
        return "NULL"
    if k == "tuple":
        return "{" + ", ".join("%s = %s" % (n, lit(x)) for n, x in v[1]) + "}"
    if k == "list":
        return "[" + ", ".join(lit(x) for x in v[1]) + "]"
    if k == "expr":
        return v[1]
    raise ValueError(v)


def value_of(v):
    """computed values carry their value: ("expr", source, value)"""
    return v[2] if v[0] == "expr" else v


PRIMS = [("int", 0), ("float", 0.0), ("str", ""), ("bool", True)]


def tuple_exemplars():
    out = [("tuple", [])]
    for ta in PRIMS:
        out.append(("tuple", [("a", ta)]))
        for tb in PRIMS:
            out.append(("tuple", [("a", ta), ("b", tb)]))
    # depth 2 and a depth-3 chain
    out.append(("tuple", [("a", ("tuple", [("a", ("int", 0))]))]))
    out.append(("tuple", [("a", ("tuple", [("a", ("int", 0)), ("b", ("str", ""))])), ("b", ("int", 0))]))
    out.append(("tuple", [("a", ("tuple", [("a", ("tuple", [("a", ("str", ""))]))]))]))
    out.append(("tuple", [("a", ("list", [("int", 0)]))]))
    # exemplars that do not mention the first field of the values
    out.append(("tuple", [("b", ("str", ""))]))
    out.append(("tuple", [("b", ("int", 0))]))
    out.append(("tuple", [("c", ("bool", True))]))
    out.append(("tuple", [("b", ("str", "")), ("c", ("bool", True))]))
    return out


LIST_EXEMPLARS = [("list", []), ("list", [("int", 0)]), ("list", [("str", "")]), ("list", [("int", 0), ("str", "")]),
                  ("list", [("list", [("int", 0)])]), ("list", [("tuple", [("a", ("int", 0))])])]


def constraints():
    """yields (class, constraint) ; constraint = ("ex", v) | ("range", kind, lo, hi) | ("alt", [arm])
    arm = ("exact", v) | ("range", kind, lo, hi)"""
    for p in PRIMS:
        yield "exemplar-primitive", ("ex", p)
    for t in tuple_exemplars():
        yield "exemplar-tuple", ("ex", t)
    for l in LIST_EXEMPLARS:
        yield "exemplar-list", ("ex", l)
    for lo, hi in itertools.product([1, 3], repeat=2):
        if lo <= hi:
            yield "range-int", ("range", "int", lo, hi)
            yield "range-float", ("range", "float", float(lo), float(hi))
    for b in (1, 3):
        yield "range-int-open", ("range", "int", b, None)
        yield "range-int-open", ("range", "int", None, b)
        yield "range-float-open", ("range", "float", float(b), None)
        yield "range-float-open", ("range", "float", None, float(b))
    arms = [("exact", ("str", "a")), ("exact", ("str", "b")), ("exact", ("int", 1)), ("exact", ("int", 8)), ("range", "int", 1, 3), ("range", "int", 5, 6)]
    for n in range(1, 5):
        for combo in itertools.permutations(arms, n):
            if n == 1 and combo[0][0] == "range":
                continue        # a single range is the range constraint above
            if n >= 3 and list(combo) != sorted(combo, key=arms.index):
                continue        # order matters for 1-2 arms (enumerated), 3-4 arms in pool order
            yield "alternation-%d" % n, ("alt", list(combo))
    # NULL as one of the alternatives
    null = ("exact", ("null",))
    for combo in ([null, arms[2]], [arms[2], null], [arms[0], null, arms[4]], [null, arms[0]], [null, arms[4]]):
        yield "alternation-with-null", ("alt", list(combo))


def con_src(c):
    if c[0] == "ex":
        return lit(c[1])
    if c[0] == "range":
        return range_src(c)
    return " | ".join(range_src(a) if a[0] == "range" else lit(a[1]) for a in c[1])


def range_src(r):
    f = (lambda x: repr(float(x))) if r[1] == "float" else str
    return "in %s..%s" % ("" if r[2] is None else f(r[2]), "" if r[3] is None else f(r[3]))


def values():
    vs = [("int", 0), ("int", 1), ("int", 2), ("int", 3), ("int", 4), ("int", 5), ("int", 6), ("int", 7), ("int", 8), ("int", 9), ("int", -1),
          ("float", 0.0), ("float", 0.5), ("float", 1.0), ("float", 2.0), ("float", 3.0), ("float", 3.5), ("float", 0.999), ("float", 3.001),
          ("str", ""), ("str", "a"), ("str", "b"), ("str", "c"), ("bool", True), ("bool", False), ("null",),
          ("tuple", []), ("tuple", [("a", ("int", 5))]), ("tuple", [("a", ("str", "s"))]), ("tuple", [("a", ("int", 5)), ("b", ("str", "s"))]),
          ("tuple", [("a", ("int", 5)), ("b", ("int", 6))]), ("tuple", [("a", ("int", 5)), ("b", ("str", "s")), ("c", ("bool", True))]),
          ("tuple", [("c", ("int", 1))]), ("tuple", [("b", ("str", "s"))]), ("tuple", [("a", ("null",))]),
          ("tuple", [("a", ("tuple", [("a", ("int", 1))]))]), ("tuple", [("a", ("tuple", [("a", ("str", "s"))]))]),
          ("tuple", [("a", ("tuple", [("a", ("int", 1)), ("b", ("str", "s"))])), ("b", ("int", 2))]),
          ("tuple", [("a", ("tuple", [("a", ("tuple", [("a", ("str", "x"))]))]))]), ("tuple", [("a", ("tuple", [("a", ("tuple", [("a", ("int", 1))]))]))]),
          ("tuple", [("a", ("list", [("int", 1)]))]), ("tuple", [("a", ("list", [("str", "s")]))]),
          ("list", []), ("list", [("int", 1)]), ("list", [("str", "s")]), ("list", [("int", 1), ("str", "s")]), ("list", [("int", 1), ("int", 2)]),
          ("list", [("bool", True)]), ("list", [("int", 1), ("bool", True)]), ("list", [("list", [("int", 1)])]), ("list", [("list", [("str", "s")])]),
          ("list", [("tuple", [("a", ("int", 1))])]), ("list", [("tuple", [("a", ("str", "s"))])]), ("list", [("list", [])]),
          ("expr", "1 + 1", ("int", 2)), ("expr", "incr(1)", ("int", 2)), ("expr", 'select ("a", 0) => {a = 2}', ("int", 2)),
          ("expr", '"a" + ""', ("str", "a")), ("expr", "1.5 + 1.5", ("float", 3.0)), ("expr", "mk(1)", ("tuple", [("a", ("int", 1))])),
          ("expr", "[1] + [2]", ("list", [("int", 1), ("int", 2)])), ("expr", "4 * 2", ("int", 8)), ("expr", "ident(3)", ("int", 3)),
          # values that are callable: a function, a function literal, a module
          ("expr", "incr", ("func",)), ("expr", "func () => 1", ("func",)), ("expr", "amod", ("module",)), ("expr", "mk(incr).a", ("func",))]
    # the same values reaching the binding without a static shape the checker could use: only the
    # run-time check stands between them and the binding
    for v in list(vs):
        if v[0] == "expr":
            continue
        vs.append(("expr", "hide(%s)" % lit(v), v, "opaque-identity"))
        vs.append(("expr", "[0.5, %s].1" % lit(v), v, "mixed-list-element"))
        vs.append(("expr", "pick({a = %s})" % lit(v), v, "field-of-argument"))
    return vs


PRELUDE = ("let incr = func (p) => p + 1;\nlet ident = func (p) => p;\nlet mk = func (p) => {a = p};\n"
           "let hide = func (p) => select (\"a\", NULL) => {a = p};\nlet pick = func (t) => t.a;\nlet amod = module {k = 1} => { let r = mod.k; };\n")


# ---------------------------------------------------------------------------------------------
# conformance predicate (property text + typechecking.md)

def same_shape(ex, v):
    if v[0] == "null" or ex[0] == "null":
        return True                      # NULL is compatible with any constraint
    if ex[0] != v[0]:
        return False
    if ex[0] in ("int", "float", "str", "bool"):
        return True
    if ex[0] == "tuple":
        de, dv = dict(ex[1]), dict(v[1])
        shared = set(de) & set(dv)
        if not (set(de) <= set(dv) or set(dv) <= set(de)):
            return False
        return all(same_shape(de[k], dv[k]) for k in shared)
    if ex[0] == "list":
        def covered(xs, ys):
            return all(any(same_shape(y, x) or same_shape(x, y) for y in ys) for x in xs)
        # every element type of one side is admitted by the other
        return covered(ex[1], v[1]) or covered(v[1], ex[1])
    return False


def in_range(r, v):
    if v[0] == "null":
        return None      # unspecified (see admitted())
    if v[0] != r[1]:
        return False
    return (r[2] is None or v[1] >= r[2]) and (r[3] is None or v[1] <= r[3])


def admitted(c, v):
    v = value_of(v)
    if v[0] in ("func", "module"):
        return False        # none of the constraints of this grammar is a function or a module, equals one or contains one
    if c[0] == "ex":
        return same_shape(c[1], v)
    if c[0] == "range":
        return in_range(c, v)
    arms = c[1]
    if len(arms) == 1 and arms[0][0] == "exact":
        return same_shape(arms[0][1], v)      # a single value is an exemplar
    if v[0] == "null":
        # The property text admits "numbers between the bounds" and "a value equal to one of its
        # alternatives"; typechecking.md says NULL is compatible with any constraint. NULL
        # against a range or an alternation is therefore left unjudged (the first version of
        # this check demanded admission and raised a false alarm).
        return None
    for a in arms:
        if a[0] == "exact":
            if a[1][0] == v[0] and a[1][1] == v[1]:
                return True
        elif in_range(a, v):
            return True
    return False


# ---------------------------------------------------------------------------------------------

SPELLINGS = ["inline", "named", "let-exemplar", "named-alias", "named-composed-left", "named-composed-right", "through-constrained-binding", "select-through-constrained-binding", "select-through-constrained-binding-2",
             "through-constrained-binding-2"]


def own_constraints(v):
    """constraints the value itself conforms to (for the binding it passes through first)"""
    v = value_of(v)
    k = v[0]
    if k == "int":
        return ["0", "in ..100"]
    if k == "float":
        return ["0.0", "in ..100.0"]
    if k == "str":
        return ['""', '"%s" | "zz"' % v[1]]
    if k == "bool":
        return ["true", "false"]
    if k == "tuple":
        zero = lambda x: {"int": ("int", 0), "float": ("float", 0.0), "str": ("str", ""), "bool": ("bool", True)}.get(x[0], x)
        def z(x):
            if x[0] == "tuple":
                return ("tuple", [(n, z(y)) for n, y in x[1]])
            if x[0] == "list":
                return ("list", [z(y) for y in x[1]])
            return zero(x)
        full = z(v)
        first = ("tuple", full[1][:1])
        return [lit(first), lit(full)]
    if k == "list":
        # the exemplar of the first element's type alone, and the list itself
        zero = {"int": ("int", 0), "float": ("float", 0.0), "str": ("str", ""), "bool": ("bool", True)}
        first = [lit(("list", [zero.get(v[1][0][0], v[1][0])]))] if v[1] else ["[]"]
        return first + [lit(v)]
    if k == "null":
        return ["0", '""']           # NULL is admitted by every exemplar
    return []


def program(c, v, spelling):
    cs, vs = con_src(c), lit(v)
    if spelling == "inline":
        return PRELUDE + "let x :: %s = %s;\n" % (cs, vs)
    if spelling == "named":
        return PRELUDE + "constraint cc = %s;\nlet x :: cc = %s;\n" % (cs, vs)
    if spelling == "let-exemplar":
        if c[0] != "ex":
            return None
        return PRELUDE + "let Shape = %s;\nlet x :: Shape = %s;\n" % (cs, vs)
    if spelling == "named-alias":
        return PRELUDE + "constraint c1 = %s;\nconstraint cc = c1;\nlet x :: cc = %s;\n" % (cs, vs)
    if spelling in ("named-composed-left", "named-composed-right"):
        # an alternation split over two named constraints must admit what the whole admits
        if c[0] != "alt" or len(c[1]) < 2:
            return None
        arm = lambda a: range_src(a) if a[0] == "range" else lit(a[1])
        if spelling == "named-composed-left":
            return PRELUDE + "constraint c1 = %s;\nconstraint cc = c1 | %s;\nlet x :: cc = %s;\n" % (" | ".join(arm(a) for a in c[1][:-1]), arm(c[1][-1]), vs)
        return PRELUDE + "constraint c1 = %s;\nconstraint cc = %s | c1;\nlet x :: cc = %s;\n" % (" | ".join(arm(a) for a in c[1][1:]), arm(c[1][0]), vs)
    if spelling.startswith("through-constrained-binding"):
        # the value first passes a binding whose constraint it satisfies; what the second binding
        # admits must not depend on that
        own = own_constraints(v)
        i = 1 if spelling.endswith("-2") else 0
        if len(own) <= i or v[0] == "expr":
            return None
        return PRELUDE + "let y :: %s = %s;\nlet x :: %s = y;\n" % (own[i], vs, cs)
    if spelling.startswith("select-through-constrained-binding"):
        # as above, but the value comes out of a select whose other arm has another shape: the checker then knows a set of
        # candidates, not one shape, and what the first constraint leaves of it must not decide what the second admits
        own = own_constraints(v)
        i = 1 if spelling.endswith("-2") else 0
        if len(own) <= i or v[0] == "expr":
            return None
        other = '"other"' if v[0] != "str" else "0"
        return PRELUDE + "let mode = \"a\";\nlet y :: %s = select (mode, %s) => {a = %s};\nlet x :: %s = y;\n" % (own[i], other, vs, cs)
    raise ValueError(spelling)


_DIR = None
_cnt = itertools.count()


def sdir():
    global _DIR
    if _DIR is None or _DIR[0] != os.getpid():
        d = tempfile.mkdtemp(prefix="ucgverif-c06-")
        _DIR = (os.getpid(), d)
        import atexit
        atexit.register(shutil.rmtree, d, True)
    return _DIR[1]


def work(chunk):
    """chunk: list of (class, constraint, value)"""
    srv = core.worker_server()
    d = sdir()
    reqs = []
    meta = []
    for cls, c, v in chunk:
        for sp in SPELLINGS:
            src = program(c, v, sp)
            if src is None:
                continue
            p = os.path.join(d, "c%d_%d.ucg" % (os.getpid(), next(_cnt)))
            with open(p, "w") as f:
                f.write(src)
            reqs.append({"op": "build", "path": p})
            meta.append((cls, c, v, sp, src, p))
    resps = srv.req_many(reqs)
    hist = {}
    viol = []
    by_case = {}
    for (cls, c, v, sp, src, p), rs in zip(meta, resps):
        os.unlink(p)
        want = admitted(c, v)
        if want is None:
            hist[cls + ":unspecified(NULL vs range/alternation)"] = hist.get(cls + ":unspecified(NULL vs range/alternation)", 0) + 1
            by_case.setdefault((repr(c), repr(v)), {})[sp] = "ok" in rs
            continue
        if "ok" in rs:
            got = True
        elif "err" in rs:
            got = False
        else:
            got = None
        by_case.setdefault((repr(c), repr(v)), {})[sp] = got
        if got is None:
            oc = "CRASH"
            viol.append((cls, c, v, sp, "crash", src, rs))
        elif got == want:
            oc = "admits=admits" if want else "rejects=rejects"
        elif want:
            oc = "REJECTS-CONFORMING"
            viol.append((cls, c, v, sp, "rejects-conforming", src, rs.get("err", "")[:200]))
        else:
            oc = "ADMITS-NONCONFORMING"
            viol.append((cls, c, v, sp, "admits-nonconforming", src, None))
        k = "%s:%s" % (cls, oc)
        hist[k] = hist.get(k, 0) + 1
    # spellings must agree (independent of the predicate)
    for (cr, vr), d_ in by_case.items():
        if len(set(d_.values())) > 1:
            hist["SPELLINGS-DISAGREE"] = hist.get("SPELLINGS-DISAGREE", 0) + 1
            m = [x for x in meta if repr(x[1]) == cr and repr(x[2]) == vr][0]
            viol.append((m[0], m[1], m[2], "all", "spellings-disagree", m[4], d_))
    srv.recycle()
    return {"evals": len(reqs), "hist": hist, "viol": viol[:400], "sample": meta[len(meta) // 2][4].replace(PRELUDE, "").strip() if meta else None}


def vclass(v):
    v = value_of(v)
    if v[0] == "tuple":
        return "{" + ",".join("%s:%s" % (n, vclass(x)) for n, x in v[1]) + "}"
    if v[0] == "list":
        return "[" + ",".join(vclass(x) for x in v[1]) + "]"
    return v[0]


def cclass(c):
    if c[0] == "ex":
        return "exemplar " + vclass(c[1])
    if c[0] == "range":
        return "range %s %s..%s" % (c[1], "lo" if c[2] is not None else "", "hi" if c[3] is not None else "")
    return "alt(" + ",".join(("range" if a[0] == "range" else a[1][0]) for a in c[1]) + ")"


# The recursive constraint of the reference (typechecking.md), written directly, behind an alias, as an arm of another
# named constraint and with the value first bound under the constraint itself. The documented examples have a
# documented verdict; for every value the spellings must agree.
REC_DECL = 'constraint node = "" | {name = "", children = [node]};\n'
REC_SPELLINGS = {
    "direct": "let x :: node = %s;\n",
    "alias": "constraint n2 = node;\nlet x :: n2 = %s;\n",
    "arm-of-another": "constraint opt = node | 0;\nlet x :: opt = %s;\n",
    "arm-of-another-first": "constraint opt = 0 | node;\nlet x :: opt = %s;\n",
    "through-constrained-binding": "let y :: node = %s;\nlet x :: node = y;\n",
}
REC_VALUES = [
    ("leaf", '"hello"', True), ("empty-element", '{name = "a", children = []}', True), ("one-level", '{name = "a", children = ["t", {name = "b", children = []}]}', True),
    ("deep", '{name = "a", children = [{name = "b", children = [{name = "c", children = ["p"]}]}]}', True),
    ("number-child", '{name = "a", children = [42]}', False), ("number", "42.5", False), ("name-not-string", '{name = 1, children = []}', False),
    ("children-not-list", '{name = "a", children = "x"}', False), ("deep-number-child", '{name = "a", children = [{name = "b", children = [42]}]}', None),
    ("mixed-children", '{name = "a", children = ["ok", 42]}', None), ("only-name", '{name = "a"}', None), ("extra-field", '{name = "a", children = [], more = 1}', None),
    ("bool", "true", False), ("list", '["a"]', False),
]


def work_recursive(chunk):
    srv = core.worker_server()
    d = sdir()
    hist = {}
    viol = []
    for vn, vsrc, want in chunk:
        got = {}
        for sp, tpl in REC_SPELLINGS.items():
            p = os.path.join(d, "r%d_%d.ucg" % (os.getpid(), next(_cnt)))
            with open(p, "w") as f:
                f.write(REC_DECL + tpl % vsrc)
            rs = srv.req({"op": "build", "path": p})
            os.unlink(p)
            got[sp] = True if "ok" in rs else (False if "err" in rs else None)
        bad = None
        if None in got.values():
            bad = ("crash", got)
        elif want is not None and got["direct"] != want:
            bad = ("rejects-conforming" if want else "admits-nonconforming", got)
        elif len(set(got.values())) > 1:
            bad = ("spellings-disagree", got)
        k = "recursive-constraint:%s" % ("agrees" if bad is None else bad[0].upper())
        hist[k] = hist.get(k, 0) + 1
        if bad:
            dev = "+".join(sp for sp, x in sorted(got.items()) if x != got["direct"]) or "direct"
            viol.append(("%s:recursive-constraint:%s:%s" % (bad[0], dev, vn), REC_DECL + REC_SPELLINGS["direct"] % vsrc, bad[1]))
    return {"evals": len(chunk) * len(REC_SPELLINGS), "hist": hist, "viol": viol}


def work_cli(chunk):
    """chunk: list of (class, constraint, value): the exit status of the real `ucg build` — alone, and for a conforming
    and a non-conforming file named in one invocation (either order)."""
    import shutil as _sh
    hist = {}
    viol = []
    evals = 0
    d = tempfile.mkdtemp(prefix="ucgverif-c06cli-")
    try:
        for cls, c, v in chunk:
            want = admitted(c, v)
            src = program(c, v, "inline")
            if want is None or src is None:
                continue
            with open(os.path.join(d, "x.ucg"), "w") as f:
                f.write(src)
            with open(os.path.join(d, "good.ucg"), "w") as f:
                f.write("let fine :: 0 = 1;\n")
            runs = [("alone", ["build", "x.ucg"], 0 if want else 1), ("after-a-good-file", ["build", "good.ucg", "x.ucg"], 0 if want else 1),
                    ("before-a-good-file", ["build", "x.ucg", "good.ucg"], 0 if want else 1)]
            for rname, args, want_rc in runs:
                rc, out, err = core.run_ucg(args, cwd=d, env={"HOME": d})
                evals += 1
                ok = rc == want_rc
                k = "cli-%s:%s" % (rname, ("admits=admits" if want else "rejects=rejects") if ok else "EXIT-STATUS-DIFFERS")
                hist[k] = hist.get(k, 0) + 1
                if not ok:
                    viol.append((cls, c, v, "cli-" + rname, "rejects-conforming" if want else "admits-nonconforming", src, {"rc": rc, "stderr": err.decode("utf-8", "replace")[-300:]}))
    finally:
        _sh.rmtree(d, ignore_errors=True)
    return {"evals": evals, "hist": hist, "viol": viol, "sample": None}


def cli_items(cons, vals):
    """per constraint the first value it admits and the first it does not"""
    for cls, c in cons:
        got = {}
        for v in vals:
            a = admitted(c, v)
            if a is not None and a not in got and program(c, v, "inline") is not None:
                got[a] = v
                yield (cls, c, v)
            if len(got) == 2:
                break


def run(ctx):
    cons = list(constraints())
    vals = values()
    ctx.bounds = {"constraints": len(cons), "values": len(vals), "spellings": len(SPELLINGS)}
    ctx.rule = ("full cross product of %d constraints (4 primitive, %d tuple and %d list exemplars; closed and half-open int and float ranges over "
                "bounds {1, 3}; alternations of 1..4 arms from {\"a\", \"b\", 1, 8, in 1..3, in 5..6}) x %d values (every type; sub-, super-, equal, "
                "disjoint and wrong-typed tuples and lists; range boundaries lo-1, lo, mid, hi, hi+1 in int and float; computed values; NULL) "
                "and each literal value again behind an opaque identity, as an element of a mixed list and as a field of a function argument, where "
                "the checker has no static shape) x {inline, named constraint, let-bound exemplar, named alias of a named constraint, an "
                "alternation split over two named constraints (either side), the value first passing another binding whose constraint it "
                "satisfies (two such constraints per type)}, each built as a file (checker + VM). All programs distinct; non-trivial = "
                "the build gave a verdict. Per constraint the first value it admits and the first it does not once more through the exit status of the real `ucg build` (alone, after and before a good file in one invocation). Also the recursive constraint of the reference under five spellings x 14 values (documented verdicts; spellings must agree)." % (len(cons), len(tuple_exemplars()), len(LIST_EXEMPLARS), len(vals)))
    viol = []
    items = [(cls, c, v) for cls, c in cons for v in vals]
    for part in core.pmap(work, items, chunk=250):
        ctx.count(part["evals"], part["evals"])
        for k, v in part["hist"].items():
            ctx.outcome(k, v)
        if part["sample"]:
            ctx.sample(part["sample"])
        viol.extend(part["viol"])
    for part in core.pmap(work_cli, list(cli_items(cons, vals)), chunk=12):
        ctx.count(part["evals"], part["evals"])
        for k, v in part["hist"].items():
            ctx.outcome(k, v)
        viol.extend(part["viol"])
    for part in core.pmap(work_recursive, REC_VALUES, chunk=2):
        ctx.count(part["evals"], part["evals"])
        for k, v in part["hist"].items():
            ctx.outcome(k, v)
        for sig, src, det in part["viol"]:
            ctx.violation(sig, "%s: `%s`" % (sig, src.replace("\n", " ")), {"kind": "recursive-constraint", "src": src, "detail": det})
    viol.sort(key=lambda v: len(v[5]))
    seen = {}
    for cls, c, v, sp, kind, src, det in viol:
        if kind == "spellings-disagree" and isinstance(det, dict):
            # name the spellings that deviate from the inline form (or from the majority)
            ref = det.get("inline", max(set(det.values()), key=list(det.values()).count))
            sp = "+".join(k for k, x in sorted(det.items()) if x != ref)
        sig = "%s:%s:%s <- %s%s" % (kind, sp, cclass(c), vclass(v), (" (%s)" % (v[3] if len(v) > 3 else "computed")) if v[0] == "expr" else "")
        if sig in seen:
            ctx.violations[sig]["count"] += 1
            continue
        seen[sig] = 1
        if len(seen) > 150:
            break
        ctx.violation(sig, "%s (%s spelling): `%s`" % (kind, sp, src.replace(PRELUDE, "").strip().replace("\n", " ")),
                      {"kind": "constraint", "src": src, "expected_admitted": kind == "rejects-conforming", "failure": kind, "detail": det, "route": sp if sp.startswith("cli-") else "build(path)"})


def replay(case):
    if case.get("kind") == "recursive-constraint":
        core._WORKER_SERVER = None
        item = [x for x in REC_VALUES if REC_DECL + REC_SPELLINGS["direct"] % x[1] == case["src"]]
        part = work_recursive(item)
        core.worker_server().close()
        core._WORKER_SERVER = None
        return not part["viol"], {"violations": part["viol"]}
    if case.get("route", "").startswith("cli-"):
        d = tempfile.mkdtemp(prefix="ucgverif-c06-")
        try:
            with open(os.path.join(d, "x.ucg"), "w") as f:
                f.write(case["src"])
            with open(os.path.join(d, "good.ucg"), "w") as f:
                f.write("let fine :: 0 = 1;\n")
            args = {"cli-alone": ["build", "x.ucg"], "cli-after-a-good-file": ["build", "good.ucg", "x.ucg"], "cli-before-a-good-file": ["build", "x.ucg", "good.ucg"]}[case["route"]]
            rc, out, err = core.run_ucg(args, cwd=d, env={"HOME": d})
        finally:
            shutil.rmtree(d, ignore_errors=True)
        return (rc == 0) == case["expected_admitted"], {"rc": rc, "stderr": err.decode("utf-8", "replace")[-300:]}
    srv = core.Server()
    d = tempfile.mkdtemp(prefix="ucgverif-c06-")
    try:
        p = os.path.join(d, "x.ucg")
        with open(p, "w") as f:
            f.write(case["src"])
        rs = srv.req({"op": "build", "path": p})
    finally:
        srv.close()
        shutil.rmtree(d, ignore_errors=True)
    return ("ok" in rs) == case["expected_admitted"], {"observed": rs}
