"""C15 — included data files decode to the data they contain.

E1 via FileBuilder::build on files `let v = include <type> "<file>";`, observed in-process at the
Val level (ints stay ints, other numbers floats). The documents are produced by Python, not by
ucg: the C03 value trees serialised with json.dumps (compact and indented), with a TOML writer
and a YAML writer (block and flow style, plain / single- / double-quoted scalars) written here
for the subset the property names (unique keys, no anchors, merge keys or tags); text files for
`str`; every byte string of length <= 4 over {00 41 0A FB FF} and a text pool for b64 /
b64urlsafe; every truncation and single-byte substitution of a set of documents per format;
unknown include types.
"""
import base64
import itertools
import json
import math
import os
import shutil
import tempfile

from vf import core, decoders
from vf.decoders import Invalid
from checks import c03

LEVEL = "exploration"


# ---------------------------------------------------------------------------------------------
# python value trees: None, bool, int, float, str, list, dict

def py_values(thorough):
    scal = [None, True, False, 0, 1, -1, 2 ** 53 + 1, 2 ** 63 - 1, -2 ** 63, 2 ** 63, 2 ** 63 + 1, 2 ** 64 - 1, 2 ** 64, -2 ** 63 - 1, 10 ** 30, 0.5,
            # floats whose shortest decimal form needs a correctly rounding reader (a fast-path reader is 1 ULP off)
            10928588.983213553, 5.7804021771411506e-220, 0.1 + 0.2, 1 / 3, 2.2250738585072014e-308, 8.41e21, 9007199254740993.0, 1.0000000000000002,
            123456.789e-3, 4.35, 0.000001234567890123, 7.038531e-26, 1.7976931348623157e308 / 3, -1.5, 1e20, 1e-7, 1.7976931348623157e308, 5e-324, 1.0, 100.0]
    strs = ["", "a", "true", "null", "~", "1", "1.0", "yes", "a: b", "- x", "#c", " lead", "trail ", "l1\nl2", "x\n", "\t", "\"", "'", "\\", "é", "日本",
            "😀", "a" * 100, "\u0001", "\u007f", "[x]", "{x}", "a,b", "k=v", "0x1F", "1e3", ".5", "+1", "---", "...", "?", "<<", "*a", "&a", "!t", "%", "@", "`", "|", ">"]
    for s in scal:
        yield "scalar", s
    for s in strs:
        yield "string", s
    for s in scal + strs[:12]:
        yield "in-list", [s, 1]
        yield "in-map", {"k": s}
        yield "nested", {"k": {"j": [{"i": s}]}}
    for s in strs:
        if s not in ("", "<<"):      # "<<" is the merge key: outside the subset the property names
            yield "key", {s: 1}
    yield "empties", {"a": [], "b": {}, "c": [[], {}], "d": {"e": {}}}
    yield "mixed", [None, True, 1, 1.5, "s", [1], {"a": 1}]
    yield "deep", {"a": {"b": {"c": {"d": {"e": [1, [2, [3, [4]]]]}}}}}
    yield "wide", {"k%d" % i: i for i in range(12)}
    yield "list-of-maps", [{"a": 1, "b": "x"}, {"a": 2, "b": "y"}]
    yield "key-order", {"z": 1, "a": 2, "m": 3}
    # the same key names on several levels: every mapping over the keys a, b (one or both, in both orders) whose values are
    # a number, such a mapping again, or a list holding one -- two levels deep (added after a sixth-round seeded change:
    # a scratch set of seen keys shared between a mapping and the mappings inside it)
    def same_keys(depth):
        if depth == 0:
            return [1]
        sub = same_keys(depth - 1)
        maps = []
        for keys in (("a",), ("a", "b"), ("b", "a")):
            for vals in itertools.product(sub, repeat=len(keys)):
                maps.append(dict(zip(keys, vals)))
        return [1] + maps + [[m] for m in maps]
    for v in same_keys(2):
        if isinstance(v, dict) and any(x != 1 for x in v.values()):
            yield "same-keys-on-several-levels", v


def expected_wire(v):
    """python value -> wire value ucg should bind (ints that fit i64 stay ints, other numbers floats)"""
    if v is None or isinstance(v, bool) or isinstance(v, str):
        return v
    if isinstance(v, int):
        if -2 ** 63 <= v <= 2 ** 63 - 1:
            return {"i": str(v)}
        return {"f": repr(float(v))}
    if isinstance(v, float):
        return {"f": "NaN" if v != v else repr(v)}
    if isinstance(v, list):
        return {"l": [expected_wire(x) for x in v]}
    if isinstance(v, dict):
        return {"t": [[k, expected_wire(x)] for k, x in v.items()]}
    raise ValueError(v)


def wire_equal(a, b, ordered_keys=False):
    """typed equality; tuple key order is not compared (serde maps may sort)"""
    if isinstance(a, dict) and isinstance(b, dict):
        if "i" in a or "i" in b:
            return a.get("i") == b.get("i") and ("i" in a) == ("i" in b)
        if "f" in a or "f" in b:
            if "f" not in a or "f" not in b:
                return False
            x = float("nan") if a["f"] == "NaN" else float(a["f"])
            y = float("nan") if b["f"] == "NaN" else float(b["f"])
            return (x != x and y != y) or x == y
        if "l" in a or "l" in b:
            return "l" in a and "l" in b and len(a["l"]) == len(b["l"]) and all(wire_equal(x, y) for x, y in zip(a["l"], b["l"]))
        if "t" in a or "t" in b:
            if "t" not in a or "t" not in b:
                return False
            da, db = dict(map(tuple, a["t"])) if all(isinstance(k, str) for k, _ in a["t"]) else None, dict(map(tuple, b["t"]))
            if da is None or set(da) != set(db) or len(a["t"]) != len(b["t"]):
                return False
            return all(wire_equal(da[k], db[k]) for k in da)
        return False
    return type(a) is type(b) and a == b


# ---------------------------------------------------------------------------------------------
# writers (subset named by the property)

def toml_key(k):
    import re
    return k if re.fullmatch(r"[A-Za-z0-9_-]+", k) else toml_string(k)


def toml_scalar(v):
    if isinstance(v, bool):
        return "true" if v else "false"
    if isinstance(v, int):
        return str(v)
    if isinstance(v, float):
        if v != v:
            return "nan"
        if math.isinf(v):
            return "inf" if v > 0 else "-inf"
        s = repr(v)
        return s if ("." in s or "e" in s or "E" in s) else s + ".0"
    if isinstance(v, str):
        return toml_string(v)
    if isinstance(v, list):
        return "[" + ", ".join(toml_scalar(x) for x in v) + "]"
    if isinstance(v, dict):
        return "{" + ", ".join("%s = %s" % (toml_key(k), toml_scalar(x)) for k, x in v.items()) + "}"
    raise ValueError(v)


def toml_string(s):
    out = ['"']
    for c in s:
        if c == '"':
            out.append('\\"')
        elif c == "\\":
            out.append("\\\\")
        elif c == "\n":
            out.append("\\n")
        elif c == "\t":
            out.append("\\t")
        elif c == "\r":
            out.append("\\r")
        elif ord(c) < 0x20 or ord(c) == 0x7f:
            out.append("\\u%04x" % ord(c))
        else:
            out.append(c)
    out.append('"')
    return "".join(out)


def has_none(v):
    if v is None:
        return True
    if isinstance(v, list):
        return any(has_none(x) for x in v)
    if isinstance(v, dict):
        return any(has_none(x) for x in v.values())
    return False


def toml_doc(v, style):
    """style 'inline': key = value lines with inline tables; 'sections': [tables] and [[arrays of tables]]"""
    if not isinstance(v, dict) or has_none(v):
        return None
    if style == "inline":
        return "".join("%s = %s\n" % (toml_key(k), toml_scalar(x)) for k, x in v.items())
    lines = []

    def emit(tbl, path):
        subs = []
        for k, x in tbl.items():
            if isinstance(x, dict):
                subs.append((k, x, False))
            elif isinstance(x, list) and x and all(isinstance(y, dict) for y in x):
                subs.append((k, x, True))
            else:
                lines.append("%s = %s" % (toml_key(k), toml_scalar(x)))
        for k, x, arr in subs:
            p = path + [toml_key(k)]
            if arr:
                for item in x:
                    lines.append("[[%s]]" % ".".join(p))
                    emit(item, p)
            else:
                lines.append("[%s]" % ".".join(p))
                emit(x, p)
    emit(v, [])
    return "\n".join(lines) + "\n"


def yaml_scalar(v, quote):
    if v is None:
        return "null" if quote != "tilde" else "~"
    if isinstance(v, bool):
        return "true" if v else "false"
    if isinstance(v, int):
        return str(v)
    if isinstance(v, float):
        if v != v:
            return ".nan"
        if math.isinf(v):
            return ".inf" if v > 0 else "-.inf"
        s = repr(v)
        return s if ("." in s or "e" in s) else s + ".0"
    return yaml_string(v, quote)


def yaml_string(s, quote):
    plain_ok = (s != "" and s == s.strip() and all(c.isalnum() or c in "_-./" for c in s) and s[0].isalpha()
                and isinstance(decoders.yaml12_scalar(type("N", (), {"value": s, "style": None, "tag": None})()), str)
                and s.lower() not in ("yes", "no", "on", "off", "y", "n", "true", "false", "null"))
    if quote == "plain" and plain_ok:
        return s
    if quote == "single" and all(c >= " " and c != "\x7f" for c in s) and "\n" not in s:
        return "'" + s.replace("'", "''") + "'"
    return json.dumps(s, ensure_ascii=True).replace("\\ud83d\\ude00", "\\U0001F600")


def yaml_doc(v, style, quote):
    if style == "flow":
        def flow(x):
            if isinstance(x, list):
                return "[" + ", ".join(flow(y) for y in x) + "]"
            if isinstance(x, dict):
                return "{" + ", ".join("%s: %s" % (yaml_string(k, "double" if quote == "plain" else quote), flow(y)) for k, y in x.items()) + "}"
            return yaml_scalar(x, quote)
        return flow(v) + "\n"
    lines = []

    def block(x, ind, inline_first=False):
        pad = "  " * ind
        if isinstance(x, list):
            if not x:
                return ["[]"]
            out = []
            for y in x:
                sub = block(y, ind + 1)
                if isinstance(y, (list, dict)) and y:
                    out.append(pad + "- " + sub[0].lstrip())
                    out.extend(sub[1:])
                else:
                    out.append(pad + "- " + sub[0].lstrip())
            return out
        if isinstance(x, dict):
            if not x:
                return ["{}"]
            out = []
            for k, y in x.items():
                ks = yaml_string(k, quote)
                if isinstance(y, (list, dict)) and y:
                    out.append(pad + ks + ":")
                    out.extend(block(y, ind + 1))
                else:
                    out.append(pad + ks + ": " + block(y, ind + 1)[0].lstrip())
            return out
        return [pad + yaml_scalar(x, quote)]
    return "\n".join(block(v, 0)) + "\n"


# ---------------------------------------------------------------------------------------------

_DIR = None
_cnt = itertools.count()


def sdir():
    global _DIR
    if _DIR is None or _DIR[0] != os.getpid():
        d = tempfile.mkdtemp(prefix="ucgverif-c15-")
        _DIR = (os.getpid(), d)
        import atexit
        atexit.register(shutil.rmtree, d, True)
    return _DIR[1]


def include(srv, typ, data):
    """write data (bytes) to a file and build `let v = include typ "file";` -> response"""
    d = sdir()
    n = next(_cnt)
    fp = os.path.join(d, "doc%d.dat" % n)
    with open(fp, "wb") as f:
        f.write(data)
    up = os.path.join(d, "inc%d.ucg" % n)
    with open(up, "w") as f:
        f.write('let v = include %s "./doc%d.dat";\n' % (typ, n))
    return {"op": "build", "path": up}, (fp, up)


def decode_independent(typ, text):
    if typ == "json":
        return decoders.json_decode(text)
    if typ == "yaml":
        if "&" in text or "*" in text or "!" in text:
            # anchors, aliases and tags are outside the subset when they act as such; a corrupted
            # document that happens to contain them is left unjudged
            try:
                import yaml as _y
                for ev in _y.parse(text, Loader=_y.SafeLoader):
                    if getattr(ev, "anchor", None) or isinstance(ev, _y.AliasEvent) or (getattr(ev, "tag", None) and not getattr(ev, "implicit", (True, True))[0]):
                        raise OutsideSubset("anchor/alias/tag")
            except _y.YAMLError:
                pass
        docs = decoders.yaml_decode_all(text)
        if len(docs) == 0:
            return None           # an empty stream is the null document
        if len(docs) != 1:
            raise OutsideSubset("multi-document stream")
        return docs[0]
    if typ == "toml":
        return decoders.toml_decode(text)
    raise ValueError(typ)


class OutsideSubset(Exception):
    """valid for the independent decoder but outside the constructs the property names
    (non-string or merge keys): left unjudged"""


def beyond_agreement(v, typ):
    """integers outside the range on which the format's decoders agree: TOML defines integers as
    64-bit signed (a decoder must reject others, python's accepts them); YAML decoders part ways
    from 2^64 (and below -2^63). JSON numbers of any size are judged (integers beyond i64 as floats)."""
    if isinstance(v, bool):
        return False
    if isinstance(v, int):
        if typ == "toml":
            return not (-2 ** 63 <= v <= 2 ** 63 - 1)
        if typ == "yaml":
            return not (-2 ** 63 <= v <= 2 ** 64 - 1)
        return False
    if isinstance(v, dict):
        return any(beyond_agreement(x, typ) for x in v.values())
    if isinstance(v, list):
        return any(beyond_agreement(x, typ) for x in v)
    return False


def py_from_decoded(d):
    """decoder output -> python value"""
    if isinstance(d, dict):
        out = {}
        for k, v in d.items():
            if not isinstance(k, str) or k == "<<":
                raise OutsideSubset("non-string or merge key")
            out[k] = py_from_decoded(v)
        return out
    if isinstance(d, list):
        return [py_from_decoded(x) for x in d]
    return d


def work(chunk):
    """chunk: list of (class, typ, data bytes, expectation) ; expectation = ("value", wire) | ("error",) | ("decoder",)"""
    srv = core.worker_server()
    reqs = []
    files = []
    for cls, typ, data, exp in chunk:
        rq, fs = include(srv, typ, data)
        reqs.append(rq)
        files.append(fs)
    resps = srv.req_many(reqs)
    hist = {}
    viol = []
    for (cls, typ, data, exp), rs, fs in zip(chunk, resps, files):
        for f in fs:
            os.unlink(f)
        bad = None
        if "panic" in rs or "abort" in rs or "hang" in rs:
            bad = ("crash", rs)
        else:
            got = None
            if "ok" in rs:
                got = dict(map(tuple, rs["ok"]["t"])).get("v", "MISSING")
            if exp[0] == "decoder":
                # corrupted input: the independent decoder decides
                try:
                    text = data.decode("utf-8")
                    dec = py_from_decoded(decode_independent(typ, text))
                    if beyond_agreement(dec, typ):
                        raise OutsideSubset("integer beyond the range the format's decoders agree on")
                    want = ("value", expected_wire(dec))
                except OutsideSubset:
                    hist["%s-%s:unjudged(outside subset)" % (typ, cls)] = hist.get("%s-%s:unjudged(outside subset)" % (typ, cls), 0) + 1
                    continue
                except (UnicodeDecodeError, Invalid, ValueError, RecursionError):
                    want = ("error",)
            else:
                want = exp
            if want[0] == "error":
                if "ok" in rs:
                    bad = ("accepts-malformed", {"bound": got})
                oc = "error=error"
            else:
                if "ok" not in rs:
                    bad = ("rejects-valid", rs.get("err", "")[:200])
                elif not wire_equal(want[1], got):
                    bad = ("decodes-differently", {"expected": want[1], "bound": got})
                oc = "value=value"
        k = "%s-%s:%s" % (typ, cls.split(":")[0], oc if bad is None else bad[0].upper())
        hist[k] = hist.get(k, 0) + 1
        if bad:
            viol.append((cls, typ, data, bad[0], bad[1]))
    srv.recycle()
    return {"evals": len(chunk), "hist": hist, "viol": viol[:300]}


# ---------------------------------------------------------------------------------------------
# the same file included more than once in one build: what an include yields depends on its
# type and the file's bytes only, not on what was included before

PAIR_TYPES = ["str", "b64", "b64urlsafe", "json", "yaml", "toml", "nosuch"]
PAIR_DOCS = [
    ("json+yaml", b'{"v": [1, "x"], "s": ">>>???", "w": {"y": true}}  '),
    ("toml", b'v = 1\ns = ">>>???"\n'),
    ("text-only", b"plain >>> text ???\n"),
    ("not-utf8", b"\xfb\xff\xfe\x00A"),
]


def want_for(typ, data):
    """-> ("value", wire) | ("error",) | None (unjudged)"""
    if typ == "nosuch":
        return ("error",)
    if typ == "b64":
        return ("value", base64.b64encode(data).decode())
    if typ == "b64urlsafe":
        return ("value", base64.urlsafe_b64encode(data).decode())
    try:
        text = data.decode("utf-8")
    except UnicodeDecodeError:
        return ("error",)
    if typ == "str":
        return ("value", text)
    try:
        return ("value", expected_wire(py_from_decoded(decode_independent(typ, text))))
    except OutsideSubset:
        return None
    except (Invalid, ValueError, RecursionError):
        return ("error",)


def pair_cases():
    for dn, data in PAIR_DOCS:
        assert base64.b64encode(data) != base64.urlsafe_b64encode(data), dn
        for t1, t2 in itertools.product(PAIR_TYPES, repeat=2):
            for layout in ("one-file", "second-in-imported-file", "first-in-imported-file"):
                yield (dn, data, t1, t2, layout)
        for t1, t2, t3 in itertools.product(["b64", "b64urlsafe", "json", "str"], repeat=3):
            yield (dn, data, t1, (t2, t3), "three-in-one-file")


def pair_work(chunk):
    srv = core.worker_server()
    d = sdir()
    hist = {}
    viol = []
    for dn, data, t1, t2, layout in chunk:
        n = next(_cnt)
        doc = "pdoc%d.dat" % n
        with open(os.path.join(d, doc), "wb") as f:
            f.write(data)
        types = [t1] + (list(t2) if isinstance(t2, tuple) else [t2])
        main = os.path.join(d, "pmain%d.ucg" % n)
        other = os.path.join(d, "pother%d.ucg" % n)
        inc = lambda i: 'let v%d = include %s "./%s";\n' % (i, types[i], doc)
        if layout in ("one-file", "three-in-one-file"):
            files = {main: "".join(inc(i) for i in range(len(types)))}
        elif layout == "second-in-imported-file":
            files = {main: inc(0) + 'let o = import "./pother%d.ucg";\nlet v1 = o.v1;\n' % n, other: inc(1)}
        else:
            files = {main: 'let o = import "./pother%d.ucg";\nlet v0 = o.v0;\n' % n + inc(1), other: inc(0)}
        for fp, text in files.items():
            with open(fp, "w") as f:
                f.write(text)
        rs = srv.req({"op": "build", "path": main})
        for fp in list(files) + [os.path.join(d, doc)]:
            os.unlink(fp)
        wants = [want_for(t, data) for t in types]
        bad = None
        if "panic" in rs or "abort" in rs or "hang" in rs:
            bad = ("crash", rs)
        elif any(w is None for w in wants):
            oc = "unjudged(outside subset)"
        elif any(w[0] == "error" for w in wants):
            oc = "error=error"
            if "ok" in rs:
                i = [w[0] for w in wants].index("error")
                bad = ("accepts-malformed", {"include": i, "type": types[i], "bound": dict(map(tuple, rs["ok"]["t"])).get("v%d" % i, "MISSING")})
        else:
            oc = "value=value"
            if "ok" not in rs:
                bad = ("rejects-valid", rs.get("err", "")[:200])
            else:
                got = dict(map(tuple, rs["ok"]["t"]))
                for i, w in enumerate(wants):
                    if not wire_equal(w[1], got.get("v%d" % i, "MISSING")):
                        bad = ("decodes-differently", {"include": i, "type": types[i], "expected": w[1], "bound": got.get("v%d" % i, "MISSING")})
                        break
        k = "same-file-twice:%s:%s" % (layout, oc if bad is None else bad[0].upper())
        hist[k] = hist.get(k, 0) + 1
        if bad:
            viol.append((dn, data, types, layout, bad[0], bad[1]))
    srv.recycle()
    return {"evals": len(chunk), "hist": hist, "viol": viol}


# ---------------------------------------------------------------------------------------------
# an included value is a value like any other: map / filter / reduce / + / selection over it

USE_DOCS = [[], [1], [1, "a", None, True, 1.5], [[1, 2], [3]], [{"a": 1}, {"a": 2}], {"k": [1, 2, 3]}, {"a": 1, "b": "x"}, {"o": {"l": [1, [2]]}}, {}, {"e": []}]


def use_program(doc_name, typ, v):
    lines = ['let v = include %s "./%s";' % (typ, doc_name)]
    want = {}
    if isinstance(v, list):
        lines += ["let m = map(func (x) => x, v);", "let f = filter(func (x) => true, v);", "let rd = reduce(func (acc, x) => acc + [x], [], v);", "let cc = v + v;",
                  "let n = reduce(func (acc, x) => acc + 1, 0, v);"]
        want.update({"m": v, "f": v, "rd": v, "cc": v + v, "n": len(v)})
        if v:
            lines.append("let first = v.0;")
            want["first"] = v[0]
            if isinstance(v[0], list):
                lines.append("let inner = map(func (x) => x, v.0) + v.0;")
                want["inner"] = v[0] + v[0]
    else:
        lines += ["let m = map(func (k, x) => [k, x], v);", "let f = filter(func (k, x) => true, v);", "let rd = reduce(func (acc, k, x) => acc + [k], [], v);"]
        want.update({"m": v, "f": v, "rd": list(v)})
        for k, x in v.items():
            if isinstance(x, list):
                lines += ["let l_%s = map(func (x) => x, v.%s) + v.%s;" % (k, k, k), "let n_%s = reduce(func (acc, x) => acc + 1, 0, v.%s);" % (k, k)]
                want["l_" + k] = x + x
                want["n_" + k] = len(x)
            if isinstance(x, dict):
                for k2, x2 in x.items():
                    if isinstance(x2, list):
                        lines.append("let d_%s = filter(func (x) => true, v.%s.%s);" % (k2, k, k2))
                        want["d_" + k2] = x2
    return "\n".join(lines) + "\n", want


def use_work(chunk):
    srv = core.worker_server()
    d = sdir()
    hist = {}
    viol = []
    for i, typ in chunk:
        v = USE_DOCS[i]
        if typ == "json":
            text = json.dumps(v)
        elif typ == "yaml":
            text = yaml_doc(v, "block", "plain")
        else:
            text = toml_doc(v, "inline") if isinstance(v, dict) and not has_none(v) else None
        if text is None or not text.strip():
            continue            # (the empty toml document is the recorded empty-file finding)
        n = next(_cnt)
        doc = "udoc%d.dat" % n
        with open(os.path.join(d, doc), "w") as f:
            f.write(text)
        src, want = use_program(doc, typ, v)
        up = os.path.join(d, "use%d.ucg" % n)
        with open(up, "w") as f:
            f.write(src)
        rs = srv.req({"op": "build", "path": up})
        os.unlink(up)
        os.unlink(os.path.join(d, doc))
        bad = None
        if "ok" not in rs:
            bad = ("crash" if ("panic" in rs or "abort" in rs or "hang" in rs) else "valid-program-fails", {k: rs[k] for k in rs if k in ("panic", "loc", "abort", "hang", "err")})
        else:
            got = dict(map(tuple, rs["ok"]["t"]))
            for k, w in want.items():
                if not wire_equal(expected_wire(w), got.get(k, "MISSING")):
                    bad = ("wrong-value", {"binding": k, "expected": expected_wire(w), "bound": got.get(k, "MISSING")})
                    break
        k = "use-of-included-%s:%s" % (typ, "agrees" if bad is None else bad[0].upper())
        hist[k] = hist.get(k, 0) + 1
        if bad:
            viol.append((i, typ, bad[0], bad[1], src))
    srv.recycle()
    return {"evals": len(chunk), "hist": hist, "viol": viol}


def cases(thorough):
    docs = {"json": [], "yaml": [], "toml": []}
    for cls, v in py_values(thorough):
        w = expected_wire(v)
        for indent in (None, 2):
            t = json.dumps(v, ensure_ascii=False, indent=indent)
            yield (cls, "json", t.encode("utf-8"), ("value", w))
        t = json.dumps(v, ensure_ascii=True)
        yield (cls + ":ascii-escapes", "json", t.encode("utf-8"), ("value", w))
        docs["json"].append(json.dumps(v, ensure_ascii=False))
        for style in ("block", "flow"):
            for quote in ("plain", "single", "double"):
                if beyond_agreement(v, "yaml"):
                    continue
                t = yaml_doc(v, style, quote)
                yield (cls + ":" + style + "-" + quote, "yaml", t.encode("utf-8"), ("value", w))
        if not beyond_agreement(v, "yaml"):
            docs["yaml"].append(yaml_doc(v, "block", "plain"))
        for style in ("inline", "sections"):
            t = toml_doc(v, style)
            if t is not None and not beyond_agreement(v, "toml"):
                yield (cls + ":" + style, "toml", t.encode("utf-8"), ("value", w))
                docs["toml"].append(t)
    # a quoted "<<" key that holds no mapping merges nothing: it is a key like any other (json documents are yaml documents)
    for val in (1, "s", None, [1], [{"b": 1}]):
        v = {"<<": val, "a": 2}
        yield ("quoted-merge-sign-key:flow", "yaml", json.dumps(v).encode("utf-8"), ("value", expected_wire(v)))
        if not isinstance(val, list):
            for q in ("'", '"'):
                t = "%s<<%s: %s\na: 2\n" % (q, q, json.dumps(val))
                yield ("quoted-merge-sign-key:block", "yaml", t.encode("utf-8"), ("value", expected_wire(v)))
    # str
    for cls, v in py_values(thorough):
        if isinstance(v, str):
            yield ("text", "str", v.encode("utf-8"), ("value", v))
    yield ("text", "str", "line1\r\nline2\n".encode(), ("value", "line1\r\nline2\n"))
    yield ("text", "str", "﻿bom".encode("utf-8"), ("value", "﻿bom"))
    # b64 / b64urlsafe
    alphabet = [0x00, 0x41, 0x0A, 0xFB, 0xFF]
    for ln in range(0, 5):
        for t in itertools.product(alphabet, repeat=ln):
            b = bytes(t)
            yield ("bytes", "b64", b, ("value", base64.b64encode(b).decode()))
            yield ("bytes", "b64urlsafe", b, ("value", base64.urlsafe_b64encode(b).decode()))
    for b in (b"\xef\xbb\xbfabc", b"\xef\xbb\xbf", b"\xef\xbb", b"\xef\xbb\xbf\xef\xbb\xbf", b"\xff\xfeab", b"\xfe\xff", b"a\xef\xbb\xbf"):
        yield ("bytes-with-byte-order-mark", "b64", b, ("value", base64.b64encode(b).decode()))
        yield ("bytes-with-byte-order-mark", "b64urlsafe", b, ("value", base64.urlsafe_b64encode(b).decode()))
    yield ("text", "str", "\ufeffabc".encode("utf-8"), ("value", "\ufeffabc"))
    for s in ["hello", "é😀", "a" * 1000, "\n"]:
        b = s.encode("utf-8")
        yield ("text-bytes", "b64", b, ("value", base64.b64encode(b).decode()))
        yield ("text-bytes", "b64urlsafe", b, ("value", base64.urlsafe_b64encode(b).decode()))
    # unknown include types
    for typ in ("xml", "ini", "JSON", "text", "b64url"):
        yield ("unknown-type", typ, b"{}", ("error",))
    # corrupted variants: every truncation and a byte substitution at every offset
    ndocs = 30 if thorough else 10
    for typ in ("json", "toml", "yaml"):
        pool = sorted(set(docs[typ]), key=lambda s: (-min(len(s), 60), s))[:ndocs]
        # and the shortest documents that hold a non-ASCII string (a cut or a foreign byte inside a multi-byte character)
        pool += sorted((x for x in set(docs[typ]) if any(ord(ch) > 127 for ch in x) and x not in pool), key=len)[:3]
        for doc in pool:
            b = doc.encode("utf-8")
            if len(b) > 120:
                continue
            for cut in range(0, len(b)):
                yield ("truncated", typ, b[:cut], ("decoder",))
            for off in range(len(b)):
                for ch in (b"{", b'"', b":", b"\x00", b"\xff", b"\x80"):
                    if b[off:off + 1] != ch:
                        yield ("corrupted", typ, b[:off] + ch + b[off + 1:], ("decoder",))


def run(ctx):
    thorough = ctx.tier == "thorough"
    cs = list(cases(thorough))
    ctx.bounds = {"cases": len(cs), "byte_string_length": 4, "byte_alphabet": 5, "corrupted_documents_per_format": 30 if thorough else 10}
    ctx.rule = ("~190 value trees (scalars incl. integer/float extremes, 45 format-significant strings as value and as key, nesting, empties, "
                "mixed lists) written by Python as JSON (compact, indented, ASCII-escaped), YAML (block/flow x plain/single/double quoting) and "
                "TOML (inline tables / [sections] and [[arrays of tables]]); text files for str; every byte string of length <= 4 over "
                "{00 41 0A FB FF} for b64 and b64urlsafe; unknown types; every truncation and every single-byte substitution by {, \", :, NUL, 0xFF, 0x80 of "
                "the longest documents per format (judged by the independent decoder). Each include is one built file; all distinct. Then the same "
                "file included twice in one build: 4 documents x every ordered pair of 7 include types x {both in one file, either one in an "
                "imported file} and every triple over {b64, b64urlsafe, json, str}, each binding judged as if it were the only include. 10 list / tuple documents x 3 formats used after the include: "
                "map, filter, reduce, +, selection and the same on nested lists, against what Python computes.")
    viol = []
    for part in core.pmap(work, cs, chunk=400):
        ctx.count(part["evals"], part["evals"])
        for k, v in part["hist"].items():
            ctx.outcome(k, v)
        viol.extend(part["viol"])
    pviol = []
    for part in core.pmap(pair_work, list(pair_cases()), chunk=60):
        ctx.count(part["evals"], part["evals"])
        for k, v in part["hist"].items():
            ctx.outcome(k, v)
        pviol.extend(part["viol"])
    for part in core.pmap(use_work, [(i, t) for i in range(len(USE_DOCS)) for t in ("json", "yaml", "toml")], chunk=3):
        ctx.count(part["evals"], part["evals"])
        for k, v in part["hist"].items():
            ctx.outcome(k, v)
        for i, typ, kind, det, src in part["viol"]:
            shape = "list" if isinstance(USE_DOCS[i], list) else "tuple"
            sig = "use-of-included-value:%s:%s:%s" % (kind, typ, (det.get("binding") or str(det.get("panic") or det.get("err") or "")[:50]) if isinstance(det, dict) else "")
            if sig in ctx.violations:
                ctx.violations[sig]["count"] += 1
                continue
            ctx.violation(sig, "%s when a %s included as %s is used: %s" % (kind, shape, typ, src.replace("\n", " ")[:160]),
                          {"kind": "include-use", "doc_index": i, "type": typ, "failure": kind, "detail": det})
    for dn, data, types, layout, kind, det in sorted(pviol, key=lambda v: (len(v[2]), v[3], v[2])):
        i = det.get("include", 0) if isinstance(det, dict) else 0
        sig = "same-file-twice:%s:%s-after-%s:%s" % (kind, types[i], "+".join(types[:i]) or "nothing", dn)
        if sig in ctx.violations:
            ctx.violations[sig]["count"] += 1
            continue
        ctx.violation(sig, "%s: include %s of a file already included as %s in the same build (%s, %s)" % (kind, types[i], "+".join(types[:i]) or "nothing", layout, dn),
                      {"kind": "include-pair", "doc": dn, "data_b64": base64.b64encode(data).decode(), "types": types, "layout": layout, "failure": kind, "detail": det})
    ctx.sample({"type": "yaml", "document": "k:\n  j:\n  - i: 'a: b'\n", "expect": {"k": {"j": [{"i": "a: b"}]}}})
    ctx.sample({"type": "b64", "bytes": "fb ff 00 41", "expect": base64.b64encode(bytes([0xfb, 0xff, 0, 0x41])).decode()})
    viol.sort(key=lambda v: len(v[2]))
    seen = {}
    for cls, typ, data, kind, det in viol:
        if typ in ("b64", "b64urlsafe", "str"):
            feat = "empty-file" if data == b"" else ("non-utf8-bytes" if _not_utf8(data) else "text")
            sig = "%s:%s:%s" % (typ, kind, feat)
        elif cls in ("truncated", "corrupted"):
            sig = "%s:%s:%s:%s" % (typ, kind, "empty-file" if data == b"" else cls, data.decode("utf-8", "replace")[:40])
        else:
            sig = "%s:%s:%s" % (typ, kind, cls)
        if sig in seen:
            ctx.violations[sig]["count"] += 1
            continue
        seen[sig] = 1
        if len(seen) > 120:
            break
        ctx.violation(sig, "%s on include %s of %r" % (kind, typ, data[:80]), {"kind": "include", "type": typ, "data_b64": base64.b64encode(data).decode(),
                                                                            "class": cls, "failure": kind, "detail": det})


def _not_utf8(b):
    try:
        b.decode("utf-8")
        return False
    except UnicodeDecodeError:
        return True


def replay(case):
    data = base64.b64decode(case["data_b64"])
    core._WORKER_SERVER = None
    if case.get("kind") == "include-use":
        part = use_work([(case["doc_index"], case["type"])])
        core.worker_server().close()
        core._WORKER_SERVER = None
        return not part["viol"], {"violations": [(v[2], v[3]) for v in part["viol"]]}
    if case.get("kind") == "include-pair":
        ts = case["types"]
        part = pair_work([(case["doc"], data, ts[0], tuple(ts[1:]) if len(ts) > 2 else ts[1], case["layout"])])
        core.worker_server().close()
        core._WORKER_SERVER = None
        return not part["viol"], {"violations": [(v[4], v[5]) for v in part["viol"]]}
    exp = ("decoder",) if case["class"] in ("truncated", "corrupted") else None
    if exp is None:
        for c in cases(True):
            if c[1] == case["type"] and c[2] == data:
                exp = c[3]
                break
    part = work([(case["class"], case["type"], data, exp or ("error",))])
    core.worker_server().close()
    core._WORKER_SERVER = None
    return not part["viol"], {"violations": [(v[3], v[4]) for v in part["viol"]]}
