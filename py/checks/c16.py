"""C16 — a file builds the same alone, in any batch, in any order, any number of times.

Model checking. Model: result(file) = (success, bytes of its own artifact) as obtained alone in a
fresh process and directory; a batch is a sequence of files; spec: result in batch = result
alone; exit status = any failure.

E2: breadth-first search over the real in-process Environment. Events = build(f) for the 8
project files; a state is the history that reaches it (the Environment cannot be cloned, so a
transition replays the history in a fresh Environment and applies one more event); states are
deduplicated on the canonical key (sorted val_cache keys, sorted shape_cache keys, out_lock,
assertion collector) — op_cache is left out because files do not change during a run, so states
that differ only there have the same futures. Invariant on every transition: the observable
result of build(f) equals the result of build(f) in the initial state.
E3: every ordered sequence of 1..3 distinct files through one `ucg build f1 f2 ...` invocation,
executed twice in the same directory, plus `ucg build -r`, compared with the alone baseline.
"""
import itertools
import os
import re
import shutil
import tempfile

from vf import core

LEVEL = "model_checking"

PROJECT = {
    "A.ucg": 'let v = 1;\nout json {a = v};\n',
    "L.ucg": 'let x = 5;\nlet f = func (a) => a + 1;\n',
    "B.ucg": 'let l = import "./L.ucg";\nout json {b = l.x, c = l.f(1)};\n',
    "M.ucg": 'let m = 7;\nout json {m = m};\n',
    "N.ucg": 'let mm = import "./M.ucg";\nout json {n = mm.m};\n',
    "X.ucg": 'let x = 1 + "s";\nout json x;\n',
    "Y.ucg": 'let y = fail "boom";\nout json y;\n',
    "T.ucg": 'let a = import "./L.ucg";\nlet b = import "./sub/../L.ucg";\nout json {t = a.x + b.x};\n',
    # imports a file that has its own out and is also built, then fails at run time (after the import ran)
    "Z.ucg": 'let mm = import "./M.ucg";\nlet z = fail "late";\nout json z;\n',
    # imports the library, writes its artifact, and only then fails
    "W.ucg": 'let l = import "./L.ucg";\nout json {w = l.x};\nlet late = [1].5;\n',
    # evaluates, but the type checker refuses it (lists of unlike elements joined): fails alone
    "H.ucg": 'let ports = [8080, 8443];\nlet names = ["http"];\nlet listen = ports + names;\nout json {h = listen};\n',
    # reaches H through an inline import, which the checker does not follow: H is checked when it is loaded at run time
    "I.ucg": 'let first = (import "./H.ucg").ports.0;\nout json {i = first};\n',
    # hands the whole import of the library to a function whose parameter wants another shape: a type error of this file,
    # whichever file imported the library first
    "P.ucg": 'let render = func (cfg :: {x = ""}) => cfg.x;\nlet l = import "./L.ucg";\nlet u = render(l);\nout json {u = u};\n',
    # evaluates, but the checker refuses a statement that is not a let (sixth round: a file whose importer was checked first
    # must still be checked in full when it is built itself)
    "Q.ucg": 'let port = 8080;\n[port] + ["s"];\nassert {ok = port, desc = "a port"};\nout json {q = port};\n',
    "R.ucg": 'let q = import "./Q.ucg";\nout json {r = q.port};\n',
    # conversions that fail after part of their text was produced, and conversions of the same kinds that succeed (sixth
    # round: a render buffer kept for the whole invocation; a converter that keeps its own buffer between conversions)
    "V.ucg": 'out xml {root = {name = "r", attrs = {k = "v"}, children = [{name = "a"}, "t", 1]}};\n',
    "U.ucg": 'constraint cc = in 1..3;\nout yamlmulti [{a = 1}, cc];\n',
    "S.ucg": 'out yamlmulti [{s = 1}, {t = 2}];\n',
    "K.ucg": 'out xml {root = {name = "k", children = ["t"]}};\n',
}
FILES = list(PROJECT)
ARTIFACT_EXT = {"V.ucg": "xml", "U.ucg": "yaml", "S.ucg": "yaml", "K.ucg": "xml"}


def make_project(d):
    os.makedirs(os.path.join(d, "sub"), exist_ok=True)
    for n, t in PROJECT.items():
        with open(os.path.join(d, n), "w") as f:
            f.write(t)


def artifacts(d):
    out = {}
    for n in sorted(os.listdir(d)):
        p = os.path.join(d, n)
        if os.path.isfile(p) and not n.endswith(".ucg"):
            with open(p, "rb") as f:
                out[n] = f.read()
    return out


def clear_artifacts(d):
    for n in os.listdir(d):
        p = os.path.join(d, n)
        if os.path.isfile(p) and not n.endswith(".ucg"):
            os.unlink(p)


def own_artifact(name):
    return name[:-4] + "." + ARTIFACT_EXT.get(name, "json")


# a type error found in a file that is imported by let is reported under the imported file's name; which input it failed is
# known from the project (one importer by let per such file)
LET_IMPORTER_OF = {"Q.ucg": "R.ucg"}


def failed_files(stderr, names):
    bad = set()
    for line in stderr.split("\n"):
        m = re.search(r"Type error in imported file \S*/([A-Za-z0-9_]+\.ucg):", line)
        if m and m.group(1) in LET_IMPORTER_OF:
            if LET_IMPORTER_OF[m.group(1)] in names:
                bad.add(LET_IMPORTER_OF[m.group(1)])
            continue
        for n in names:
            # build() wraps evaluation errors ("Error building file: <path>"); parse and type errors
            # come straight from get_ops_for_path and name the file in their position
            if re.search(r"Error building file: \S*/%s\b" % re.escape(n), line) or re.search(r" at file: \S*/%s line:" % re.escape(n), line):
                bad.add(n)
    return bad


# -- E3 --------------------------------------------------------------------------------------

def baseline_cli():
    base = {}
    for n in FILES:
        d = tempfile.mkdtemp(prefix="ucgverif-c16-")
        try:
            make_project(d)
            rc, out, err = core.run_ucg(["build", n], cwd=d)
            arts = artifacts(d)
            base[n] = {"ok": rc == 0, "artifact": arts.get(own_artifact(n))}
        finally:
            shutil.rmtree(d, ignore_errors=True)
    return base


def work_e3(chunk):
    """chunk: list of (order, mode, baseline)"""
    hist = {}
    viol = []
    for order, mode, base in chunk:
        d = tempfile.mkdtemp(prefix="ucgverif-c16-")
        try:
            make_project(d)
            bad = None
            for run_no in (1, 2):
                clear_artifacts(d)
                if mode in ("args", "dotargs"):
                    # dotargs: the same files named as ./f on the command line
                    rc, out, err = core.run_ucg(["build"] + [("./" + n if mode == "dotargs" else n) for n in order], cwd=d)
                    names = list(order)
                else:
                    rc, out, err = core.run_ucg(["build", "-r"], cwd=d)
                    names = FILES
                err_s = err.decode("utf-8", "replace")
                arts = artifacts(d)
                failed = failed_files(err_s, names)
                if rc is None or rc not in (0, 1):
                    bad = ("exit-status-%s" % rc, {"stderr": err_s[-300:]})
                    break
                want_rc = 0 if all(base[n]["ok"] for n in names) else 1
                for n in names:
                    ok_here = n not in failed
                    kindseq = ("after[%s]" % ",".join(role(x) for x in names[:names.index(n)]) + (":named-with-dot-slash" if mode == "dotargs" else "")) if mode != "recursive" else "recursive"
                    if ok_here != base[n]["ok"]:
                        msg = ""
                        m = re.search(r"Error building file: \S*/%s\n(.*)" % re.escape(n), err_s)
                        if m:
                            msg = re.sub(r" at (file|line).*", "", m.group(1))[:60]
                        bad = ("%s:%s-alone-%s-in-batch:%s:run%d:%s" % (role(n), "ok" if base[n]["ok"] else "fails", "ok" if ok_here else "fails", kindseq, run_no, msg),
                               {"file": n, "stderr": err_s[-400:]})
                        break
                    if base[n]["ok"] and arts.get(own_artifact(n)) != base[n]["artifact"]:
                        bad = ("%s:artifact-differs:%s:run%d" % (role(n), kindseq, run_no),
                               {"file": n, "alone": (base[n]["artifact"] or b"").decode("utf-8", "replace"),
                                "batch": (arts.get(own_artifact(n)) or b"<missing>").decode("utf-8", "replace")})
                        break
                if bad:
                    break
                if rc != want_rc:
                    bad = ("exit-status:%d-expected-%d:run%d" % (rc, want_rc, run_no), {"stderr": err_s[-300:]})
                    break
            k = "e3-%s%d:%s" % (mode, len(order), "agrees" if bad is None else "VIOLATION")
            hist[k] = hist.get(k, 0) + 1
            if bad:
                viol.append((bad[0], {"order": list(order), "mode": mode}, bad[1]))
        finally:
            shutil.rmtree(d, ignore_errors=True)
    return {"evals": len(chunk), "hist": hist, "viol": viol}


def role(n):
    return {"A.ucg": "plain", "L.ucg": "library", "B.ucg": "importer", "M.ucg": "built-and-imported", "N.ucg": "imports-built-file",
            "X.ucg": "type-error", "Y.ucg": "runtime-failure", "T.ucg": "two-spellings", "Z.ucg": "fails-after-importing-built-file",
            "W.ucg": "fails-after-out", "H.ucg": "refused-by-checker-only", "I.ucg": "imports-inline-a-file-the-checker-refuses", "P.ucg": "passes-the-library-to-a-typed-parameter", "Q.ucg": "refused-by-checker-in-a-statement-that-is-not-a-let", "R.ucg": "imports-by-let-a-file-the-checker-refuses",
            "V.ucg": "xml-conversion-fails-late", "U.ucg": "yamlmulti-conversion-fails-late", "S.ucg": "yamlmulti-artifact", "K.ucg": "xml-artifact"}[n]


# -- E2 --------------------------------------------------------------------------------------

_E2DIR = None


def e2_dir():
    global _E2DIR
    # one directory per process: a forked worker must not share its parent's
    if _E2DIR is None or _E2DIR[0] != os.getpid():
        d = tempfile.mkdtemp(prefix="ucgverif-c16e2-%d-" % os.getpid())
        make_project(d)
        _E2DIR = (os.getpid(), d)
        import atexit
        atexit.register(shutil.rmtree, d, True)
    return _E2DIR[1]


def observe(srv, d, n, env):
    clear_artifacts(d)
    rs = srv.req({"op": "build", "path": os.path.join(d, n), "env": env})
    art = artifacts(d).get(own_artifact(n))
    if "ok" in rs:
        return ("ok", core.json.dumps(rs["ok"], sort_keys=True), art)
    if "err" in rs:
        msg = re.sub(r"/\S+/", "", rs["err"])
        msg = re.sub(r" at (file: \S+ )?line: \d+ column: \d+", "", msg)
        return ("err", msg[:200], art)
    return ("crash", core.json.dumps(rs)[:200], art)


def canon(st, d):
    def rel(p):
        return os.path.relpath(p, d) if p.startswith("/") else p
    return core.json.dumps([sorted(rel(x) for x in st.get("val_cache", [])), sorted(rel(x) for x in st.get("shape_cache", [])),
                            sorted(rel(x) for x in st.get("out_lock", [])), st.get("assert")])


def work_e2(chunk):
    """chunk: list of (history tuple, event). Replays history then applies event.
    -> list of (history, event, state key after, observation, baseline observation)"""
    srv = core.worker_server()
    d = e2_dir()
    out = []
    base = {}
    for history, ev in chunk:
        if ev not in base:
            srv.req({"op": "env_new", "id": "b"})
            base[ev] = observe(srv, d, ev, "b")
            srv.req({"op": "env_drop", "id": "b"})
        srv.req({"op": "env_new", "id": "h"})
        for n in history:
            srv.req({"op": "build", "path": os.path.join(d, n), "env": "h"})
        obs = observe(srv, d, ev, "h")
        st = srv.req({"op": "env_state", "id": "h"}).get("ok", {})
        srv.req({"op": "env_drop", "id": "h"})
        out.append((history, ev, canon(st, d), _dec(obs), _dec(base[ev])))
    return out


def _dec(obs):
    return (obs[0], obs[1], obs[2].decode("utf-8", "replace") if obs[2] is not None else None)


def run(ctx):
    thorough = ctx.tier == "thorough"
    depth = 6 if thorough else 4
    seqlen = 4 if thorough else 3
    ctx.bounds = {"project_files": len(FILES), "e2_depth": depth, "e3_sequence_length": seqlen}
    ctx.rule = ("project of %d files (plain, library, importer, built-and-imported, importer of a built file, static type error, runtime "
                "failure, one library under two spellings, failure after importing a built file, failure after out, files only the checker refuses and their importers, xml and yamlmulti conversions that fail late or succeed). E2: BFS over the real Environment to depth %d with events build(f), canonical "
                "state key (val_cache, shape_cache, out_lock, collector), invariant result = result alone on every transition. E3: every "
                "ordered sequence of 1..%d distinct files in one `ucg build` invocation run twice in the same directory (quick: all of length <= 2 and a sixth of length 3; thorough: length 4 over the first 13 files), the sequences of length <= 2 once more with every file named ./f, plus build -r." % (len(FILES), depth, seqlen))
    viol = []
    # E2 BFS
    seen = {}
    frontier = [()]
    transitions = 0
    init_key = None
    for level in range(depth):
        items = [(h, ev) for h in frontier for ev in FILES]
        nxt = []
        for res in core.pmap(work_e2, items, chunk=8):
            for history, ev, key, obs, base in res:
                transitions += 1
                if obs != base:
                    sig = "e2:%s:after[%s]:%s" % (role(ev), ",".join(role(x) for x in history), "result-differs" if obs[0] == base[0] else "%s-alone-%s-here" % (base[0], obs[0]))
                    viol.append((sig, {"history": list(history), "event": ev}, {"alone": base, "here": obs}))
                    ctx.outcome("e2:VIOLATION")
                else:
                    ctx.outcome("e2:same-as-alone")
                if key not in seen:
                    seen[key] = history + (ev,)
                    nxt.append(history + (ev,))
        ctx.count(len(items), len(items))
        frontier = nxt
        if not frontier:
            break
    ctx.coverage_extra["e2_closed"] = not frontier
    ctx.coverage_extra["e2_frontier_left"] = len(frontier)
    # E3
    base = baseline_cli()
    # sequences of length 4 (thorough) over the first 13 files only: over all 19 they are 93 024, two hours of builds
    seqs = [(o, "args", base) for ln in range(1, seqlen + 1) for o in itertools.permutations(FILES if ln <= 3 else FILES[:13], ln)]
    seqs.append((tuple(FILES), "recursive", base))
    if not thorough:
        # quick: all sequences of length <= 2 and a sixth of the length-3 sequences (every ordered pair occurs as a prefix at least twice)
        seqs = [s for s in seqs if len(s[0]) <= 2 or s[1] == "recursive"] + [(o, "args", base) for o in itertools.permutations(FILES, 3)][::6]
    # the same files named ./f on the command line: every sequence of length <= 2 (thorough 3)
    seqs += [(o, "dotargs", base) for ln in range(1, 4 if thorough else 3) for o in itertools.permutations(FILES, ln)]
    for part in core.pmap(work_e3, seqs, chunk=4):
        ctx.count(part["evals"], part["evals"])
        for k, v in part["hist"].items():
            ctx.outcome(k, v)
        viol.extend(part["viol"])
    ctx.sample({"e2_history": ["M.ucg"], "event": "N.ucg", "invariant": "build(N) after build(M) = build(N) alone"})
    ctx.sample({"e3_trace": ["ucg build M.ucg N.ucg", "ucg build M.ucg N.ucg"], "model": "both succeed, M.json and N.json as alone, exit 0"})
    ctx.sample({"e3_trace": ["ucg build X.ucg A.ucg"], "model": "X fails, A succeeds with A.json as alone, exit 1"})
    ctx.coverage_extra.update({"states": max(1, len(seen)), "transitions": max(1, transitions), "traces_validated_against_impl": len(seqs) * 2})
    done = {}
    for sig, trace, det in sorted(viol, key=lambda v: (len(str(v[1])), str(v[1]))):
        if sig in done:
            ctx.violations[sig]["count"] += 1
            continue
        done[sig] = 1
        if len(done) > 80:
            break
        ctx.violation(sig, "%s in %s" % (sig, core.json.dumps(trace)[:200]), {"kind": "trace", "trace": trace, "detail": det})


def replay(case):
    tr = case["trace"]
    if "history" in tr:
        core._WORKER_SERVER = None
        res = work_e2([(tuple(tr["history"]), tr["event"])])
        core.worker_server().close()
        core._WORKER_SERVER = None
        h, ev, key, obs, base = res[0]
        return obs == base, {"alone": base, "here": obs}
    part = work_e3([(tuple(tr["order"]), tr["mode"], baseline_cli())])
    return not part["viol"], {"violations": part["viol"]}
