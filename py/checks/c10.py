"""C10 — bindings are immutable and lexically scoped.

E1 on FileBuilder::eval_string:
 (i)   prefix law (differential, no reference): every statement sequence of length <= 4 over a pool of
       13 interacting statements (31 k programs) and every S4 program of C01 is cut at every
       statement boundary; the bindings of prefix k must be a sub-map (equal values) of those of
       every longer successful prefix, and once a prefix fails every longer one fails;
 (ii)  the same programs against the reference interpreter (closure capture, shadowing, `item`,
       module isolation);
 (iii) every word of the manual's reserved list as let name, function parameter and module-local
       let must be refused;
 (iv)  every ordered pair of binding statements for the same name must be refused.
"""
import itertools

from vf import core, refsem
from vf.refsem import pr_prog
from checks import c01
from checks.c01 import I, S, SYM, T, L, B

LEVEL = "exploration"

MOD_P = B(".", SYM("mod"), SYM("p"))
POOL = [
    ("let", "a", I(1)),
    ("let", "b", B("+", SYM("a"), I(1))),
    ("let", "f", ("func", ["x"], B("+", SYM("x"), SYM("a")))),
    ("let", "c", ("call", SYM("f"), [I(10)])),
    ("let", "t", T(("a", SYM("a")), ("k", I(5)))),
    ("let", "d", B(".", SYM("t"), SYM("a"))),
    ("let", "m", ("module", [("p", I(1))], None, [("let", "a", B("+", MOD_P, I(100)))])),
    ("let", "e", ("copy", SYM("m"), [("p", SYM("a"))])),
    ("let", "s", ("formatx", ["<", SYM("item"), ">"], SYM("a"))),
    ("expr", B("+", SYM("a"), I(1))),
    ("let", "g", ("func", ["a"], B("*", SYM("a"), I(2)))),
    ("let", "h", ("call", SYM("g"), [I(3)])),
    ("let", "a", I(2)),
]

RESERVED_MANUAL = ["self", "assert", "true", "false", "let", "import", "as", "in", "is", "not", "fail", "select", "func", "module", "env",
                   "map", "filter", "reduce", "NULL", "out", "constraint", "convert", "TRACE"]


def reserved_programs():
    for w in RESERVED_MANUAL:
        yield ("reserved", "let", w), "let %s = 1;" % w
        yield ("reserved", "func-param", w), "let f = func (%s) => 1;\nlet r = f(1);" % w
        yield ("reserved", "module-let", w), "let m = module {} => { let %s = 1; };\nlet r = m{};" % w


def rebind_programs():
    binders = {
        "let": lambda n: "let %s = 1;" % n,
        "let-func": lambda n: "let %s = func (q) => q;" % n,
        "let-module": lambda n: "let %s = module {} => { let z = 1; };" % n,
        "let-tuple": lambda n: "let %s = {v = 1};" % n,
        "let-constrained": lambda n: "let %s :: 0 = 1;" % n,
        "constraint": lambda n: "constraint %s = in 1..5;" % n,
        "constraint-alternation": lambda n: "constraint %s = 1 | 2;" % n,
    }
    for k1, k2 in itertools.product(binders, repeat=2):
        yield ("rebind", k1, k2), binders[k1]("x") + "\n" + binders[k2]("x")
        # with an unrelated statement in between, and inside a module body
        yield ("rebind-gap", k1, k2), binders[k1]("x") + "\nlet y = 2;\n" + binders[k2]("x")
        yield ("rebind-in-module", k1, k2), "let m = module {} => { %s %s };\nlet r = m{};" % (binders[k1]("x"), binders[k2]("x"))


    # one name twice in a parameter list: the second parameter would rebind the first
    for params, args in (("x, x", "1, 2"), ("x, y, x", "1, 2, 3"), ("y, x, x", "1, 2, 3")):
        yield ("rebind-parameter", "defined-and-called", params.replace(", ", "-")), "let f = func (%s) => x;\nlet r = f(%s);" % (params, args)
        yield ("rebind-parameter", "defined-only", params.replace(", ", "-")), "let f = func (%s) => x;" % params
    yield ("rebind-parameter", "map-callback", "x-x"), "let r = map(func (x, x) => [x, x], {a = 1});"
    yield ("rebind-parameter", "reduce-callback", "x-x"), "let r = reduce(func (x, x) => x, 0, [1]);"


def submap(small, big):
    bd = dict(big[1])
    for n, v in small[1]:
        if n not in bd or not refsem.same_value(v, bd[n]):
            return False
    return True


def work_seq(chunk):
    """chunk: list of statement lists. Each is cut at every boundary."""
    srv = core.worker_server()
    reqs = []
    index = []
    for pi, st in enumerate(chunk):
        for k in range(1, len(st) + 1):
            reqs.append({"op": "eval", "src": pr_prog(st[:k])})
            index.append((pi, k))
    resps = srv.req_many(reqs)
    byprog = {}
    for (pi, k), rs in zip(index, resps):
        byprog.setdefault(pi, []).append((k, rs))
    hist = {}
    viol = []
    nontrivial = 0
    for pi, st in enumerate(chunk):
        runs = byprog[pi]
        results = []
        for k, rs in runs:
            if "ok" in rs:
                results.append(("ok", refsem.from_wire(rs["ok"])))
            elif "err" in rs:
                results.append(("fail", refsem.classify_error(rs["err"])))
            else:
                results.append(("crash", rs))
        # prefix law
        bad = None
        failed_at = None
        for k, r in enumerate(results, 1):
            if r[0] == "crash":
                bad = ("crash", k, r[1])
                break
            if failed_at is not None and r[0] == "ok":
                bad = ("longer-prefix-succeeds-after-failure", k, None)
                break
            if r[0] == "fail" and failed_at is None:
                failed_at = k
            if r[0] == "ok":
                for j in range(k - 1):
                    if results[j][0] == "ok" and not submap(results[j][1], r[1]):
                        bad = ("binding-changed", k, {"prefix": j + 1})
                        break
            if bad:
                break
        # reference on every prefix
        if bad is None:
            for k, r in enumerate(results, 1):
                ref = c01.reference(st[:k])
                if ref is None:
                    continue
                if ref[0] != r[0] or (ref[0] == "ok" and not refsem.same_value(ref[1], r[1])) or (ref[0] == "fail" and ref[1] != r[1]):
                    bad = ("differs-from-reference", k, {"expected": (ref[0], c01.wire(ref[1]) if ref[0] == "ok" else ref[1]),
                                                         "observed": (r[0], c01.wire(r[1]) if r[0] == "ok" else r[1])})
                    break
        oc = "seq:" + ("ok-all" if failed_at is None else "fails-at-%d" % failed_at) if bad is None else "seq:VIOLATION:" + bad[0]
        hist[oc] = hist.get(oc, 0) + 1
        if len(st) >= 2:
            nontrivial += 1
        if bad is not None:
            viol.append((bad[0], pr_prog(st[:bad[1]]), repr(st[:bad[1]]), bad[2]))
    return {"evals": len(reqs), "nontrivial": nontrivial, "hist": hist, "viol": viol[:100],
            "sample": pr_prog(chunk[len(chunk) // 2]).replace("\n", " ") if chunk else None}


def work_src(chunk):
    """chunk: list of (desc, src) that must be refused."""
    srv = core.worker_server()
    # a description that ends in "nonstrict" is evaluated without strict mode: a missing field is NULL there, a second binding of a name is still refused
    resps = srv.req_many([dict({"op": "eval", "src": s}, **({"strict": False} if d[-1] == "nonstrict" else {})) for d, s in chunk])
    hist = {}
    viol = []
    for (desc, src), rs in zip(chunk, resps):
        if "err" in rs:
            oc = "%s:refused" % desc[0]
        elif "ok" in rs:
            oc = "%s:ACCEPTED" % desc[0]
            viol.append((desc, src, rs["ok"]))
        else:
            oc = "%s:CRASH" % desc[0]
            viol.append((desc, src, rs))
        hist[oc] = hist.get(oc, 0) + 1
    return {"evals": len(chunk), "nontrivial": len(chunk), "hist": hist, "viol2": viol, "sample": chunk[0][1].replace("\n", " ")}


def run(ctx):
    thorough = ctx.tier == "thorough"
    maxlen = 5 if thorough else 4
    ctx.bounds = {"pool": len(POOL), "sequence_length": maxlen, "reserved_words": len(RESERVED_MANUAL)}
    ctx.rule = ("every ordered sequence of 1..%d statements from a pool of %d interacting statements and every C01-S4 program, each cut at every "
                "statement boundary (prefix law + reference interpreter on every prefix); %d reserved words x 3 binding positions; 49 pairs of "
                "binders (let of a value, function, module, tuple; constrained let; two constraint statements) x 3 placements for rebinding, both in strict and in non-strict mode. evaluations = eval_string runs; distinct non-trivial = programs with >= 2 statements "
                "(each program text is distinct)." % (maxlen, len(POOL), len(RESERVED_MANUAL)))
    viol = []
    viol2 = []

    def absorb(part):
        ctx.count(part["evals"], part["nontrivial"])
        for k, v in part["hist"].items():
            ctx.outcome(k, v)
        if part.get("sample"):
            ctx.sample(part["sample"])
        viol.extend(part.get("viol", []))
        viol2.extend(part.get("viol2", []))

    def seqs():
        for ln in range(1, maxlen + 1):
            for tup in itertools.product(range(len(POOL)), repeat=ln):
                yield [POOL[i] for i in tup]
        for d, st in c01.gen_s4():
            yield st
    for part in core.pmap_gen(work_seq, seqs(), chunk=300):
        absorb(part)
    both = list(reserved_programs()) + list(rebind_programs())
    both += [(d + ("nonstrict",), src) for d, src in both]
    for part in core.pmap(work_src, both, chunk=40):
        absorb(part)

    viol.sort(key=lambda v: (len(v[1]), v[1]))
    seen = set()
    for kind, src, ast, detail in viol:
        import ast as _ast
        stmts = _ast.literal_eval(ast)
        sig = "%s :: %s" % (c01.abstract_prog(stmts), kind)
        if sig in seen:
            ctx.violations[sig]["count"] += 1
            continue
        seen.add(sig)
        if len(seen) > 60:
            break
        ctx.violation(sig, "%s on `%s`" % (kind, src.replace("\n", " ")), {"kind": "seq", "src": src, "ast": ast, "failure": kind, "detail": detail})
    for desc, src, obs in viol2:
        sig = ":".join(desc)
        ctx.violation(sig, "`%s` is accepted although %s" % (src.replace("\n", " "), "the word is reserved" if desc[0] == "reserved" else "the name is already bound"),
                      {"kind": "must-fail", "src": src, "observed": obs, "nonstrict": desc[-1] == "nonstrict"})


def replay(case):
    srv = core.Server()
    try:
        if case["kind"] == "must-fail":
            rs = srv.req(dict({"op": "eval", "src": case["src"], "env": "fresh"}, **({"strict": False} if case.get("nonstrict") else {})))
            return "err" in rs, {"observed": rs}
        import ast as _ast
        st = _ast.literal_eval(case["ast"])
        part = work_seq_single(st, srv)
        return part is None, {"violation": part}
    finally:
        srv.close()


def work_seq_single(st, srv):
    core._WORKER_SERVER = srv
    part = work_seq([st])
    core._WORKER_SERVER = None
    return part["viol"][0] if part["viol"] else None
