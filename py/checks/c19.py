"""C19 — standard-library list, tuple and string helpers compute what they document.

E1 through FileBuilder::build (checker in the loop): every helper is called on every input of a
small exhaustive space from generated files that import std/*.ucg; results are compared with
plain Python reference functions and with the laws the property names (reverse is an involution
preserving length, zip truncates, slice is the inclusive index range, str_join after split_on
restores the string).
"""
import itertools
import os
import shutil
import tempfile

from vf import core, refsem
from vf.refsem import pr

LEVEL = "exploration"

IMPORTS = ('let lists = import "std/lists.ucg";\nlet tuples = import "std/tuples.ucg";\nlet strings = import "std/strings.ucg";\n'
           'let f = import "std/functional.ucg";\nlet schema = import "std/schema.ucg";\nlet plus1 = func (x) => x + 1;\nlet seven = func () => 7;\n'
           'let cbase = {xs = [1, 2, 3], n = 0, r = [], o = {xs = [9]}};\n'
           'let tb3 = {a = 1, b = 2, c = 3};\nlet tb2 = {a = 1, b = 2};\nlet tbn = {a = 1, b = NULL, c = 3};\n')

# python values <-> mini-AST literals / reference values


def E(v):
    """python value -> mini-AST literal"""
    if v is None:
        return ("null",)
    if isinstance(v, bool):
        return ("bool", v)
    if isinstance(v, int):
        return ("int", v)
    if isinstance(v, float):
        return ("float", v)
    if isinstance(v, str):
        return ("str", v)
    if isinstance(v, list):
        return ("list", [E(x) for x in v])
    if isinstance(v, dict):
        return ("tuple", [(k, E(x)) for k, x in v.items()])
    raise ValueError(v)


def W(v):
    """python value -> wire value"""
    if v is None or isinstance(v, bool) or isinstance(v, str):
        return v
    if isinstance(v, int):
        return {"i": str(v)}
    if isinstance(v, float):
        return {"f": repr(v)}
    if isinstance(v, list):
        return {"l": [W(x) for x in v]}
    if isinstance(v, dict):
        return {"t": [[k, W(x)] for k, x in v.items()]}
    raise ValueError(v)


def R(v):
    """python value -> reference value for refsem.render"""
    return refsem.from_wire(W(v))


def S(v):
    return pr(E(v))


# ---------------------------------------------------------------------------------------------
# references

def ref_shaped(val, shape, partial=True):
    def base(x):
        if x is None:
            return "null"
        return {bool: "bool", int: "int", float: "float", str: "str", list: "list", dict: "tuple"}[type(x)]
    if base(val) != base(shape):
        return False
    if isinstance(val, dict):
        if not all(k in val and ref_shaped(val[k], shape[k], partial) for k in shape):
            return False
        return partial or all(k in shape for k in val)
    if isinstance(val, list):
        if shape == []:
            return True
        return all(any(ref_shaped(x, t, partial) for t in shape) for x in val)
    return True


def calls(thorough):
    """yields (helper, ucg expression, expected python value | ("fail",) | ("unjudged",))"""
    elems = [1, "a", None, [1], {"a": 1}]
    maxl = 4 if thorough else 3
    lists_ = [list(t) for n in range(0, maxl + 1) for t in itertools.product(elems, repeat=n)]
    for l in lists_:
        s = S(l)
        yield "lists.len", "lists.len(%s)" % s, len(l)
        yield "lists.reverse", "lists.reverse(%s)" % s, l[::-1]
        yield "lists.reverse-involution", "lists.reverse(lists.reverse(%s))" % s, l
        yield "lists.reverse-length", "lists.len(lists.reverse(%s))" % s, len(l)
        yield "lists.head", "lists.head(%s)" % s, l[:1]
        yield "lists.tail", "lists.tail(%s)" % s, l[1:]
        yield "lists.enumerate", "lists.enumerate{list = %s}" % s, [[i, x] for i, x in enumerate(l)]
        yield "lists.ops.len", "lists.ops{list = %s}.len" % s, len(l)
        yield "lists.ops.reverse", "lists.ops{list = %s}.reverse().list" % s, l[::-1]
    for l in lists_[:160]:
        s = S(l)
        yield "lists.enumerate-start-step", "lists.enumerate{list = %s, start = 2, step = 3}" % s, [[2 + 3 * i, x] for i, x in enumerate(l)]
        for sep in (" ", "", ", "):
            yield "lists.str_join", "lists.str_join{list = %s, sep = %s}" % (s, S(sep)), sep.join(refsem.render(R(x)) for x in l)
        for a in range(0, len(l)):
            for b in range(0, len(l)):
                yield "lists.slice", "lists.slice{list = %s, start = %d, end = %d}" % (s, a, b), l[a:b + 1] if a <= b else []
        for a in range(0, len(l)):
            yield "lists.slice-to-end", "lists.slice{list = %s, start = %d}" % (s, a), l[a:]
    for l in [list(t) for n in range(0, 4) for t in itertools.product(["", "x"], repeat=n)]:
        for sep in ("-", ""):
            yield "lists.str_join-empty-items", "lists.str_join{list = %s, sep = %s}" % (S(l), S(sep)), sep.join(l)
    small = [list(t) for n in range(0, 4) for t in itertools.product([1, "a"], repeat=n)]
    for a in small:
        for b in small:
            yield "lists.zip", "lists.zip{list1 = %s, list2 = %s}" % (S(a), S(b)), [[x, y] for x, y in zip(a, b)]
    # tuples
    names = ["a", "b", "c"]
    vals = [1, "s", None]
    tuples_ = [{}]
    for n in range(1, 4):
        for ks in itertools.permutations(names, n):
            for vs in itertools.product(vals, repeat=n):
                tuples_.append(dict(zip(ks, vs)))
    for t in tuples_:
        s = S(t)
        yield "tuples.fields", "tuples.fields{tpl = %s}" % s, list(t.keys())
        yield "tuples.values", "tuples.values{tpl = %s}" % s, list(t.values())
        yield "tuples.iter", "tuples.iter{tpl = %s}" % s, [[k, v] for k, v in t.items()]
        yield "tuples.strip_nulls", "tuples.strip_nulls{tpl = %s}" % s, {k: v for k, v in t.items() if v is not None}
        yield "tuples.ops.fields", "tuples.ops{tpl = %s}.fields()" % s, list(t.keys())
    for t in tuples_[:60]:
        for fs in ([], ["a"], ["a", "b"], ["c", "a"], ["z"], ["a", "z"]):
            yield "tuples.has_fields", "tuples.has_fields{tpl = %s, fields = %s}" % (S(t), S(fs)), all(f in t for f in fs)
    # strings
    alpha = ["a", "b", "-", "é"]
    maxs = 4 if thorough else 3
    strs = ["".join(t) for n in range(0, maxs + 1) for t in itertools.product(alpha, repeat=n)]
    for st in strs:
        s = S(st)
        yield "strings.len", "strings.ops{str = %s}.len" % s, len(st)
        yield "strings.chars", "strings.ops{str = %s}.chars" % s, list(st)
        for i in range(0, len(st) + 1):
            yield "strings.split_at", "strings.ops{str = %s}.split_at(%d)" % (s, i), {"left": st[:i], "right": st[i:]}
        for a in range(0, len(st)):
            for b in range(a, len(st)):
                yield "strings.substr", "strings.ops{str = %s}.substr{start = %d, end = %d}.str" % (s, a, b), st[a:b + 1]
        for a in range(0, len(st)):
            yield "strings.substr-to-end", "strings.ops{str = %s}.substr{start = %d}.str" % (s, a), st[a:]
    for st in strs if thorough else [x for x in strs if len(x) <= 3]:
        for sep in ["-", "a", "--", "-a"]:
            s = S(st)
            yield "strings.split_on", "strings.ops{str = %s}.split_on{on = %s}" % (s, S(sep)), st.split(sep)
            yield "strings.split-join-law", "lists.str_join{list = strings.ops{str = %s}.split_on{on = %s}, sep = %s}" % (s, S(sep), S(sep)), st
    # characters of every UTF-8 width and with every kind of low byte (below / above 0x80, zero): one per class, alone, doubled
    # and between ASCII letters, through every string helper (added after a sixth-round seeded change: a table of one-character
    # strings indexed by the code point cut down to its low byte)
    wide = ["\u00e9", "\u0100", "\u0141", "\u017c", "\u03b1", "\u042f", "\u4e2d", "\u65e5", "\uff21", "\U0001f600", "\U0001d11e", "\u0080", "\u07ff", "\u0800", "\uffff"]
    for ch in wide:
        for st in (ch, ch + ch, "a" + ch + "b", ch + "-" + ch, "a" + ch):
            s = S(st)
            yield "strings.len-wide", "strings.ops{str = %s}.len" % s, len(st)
            yield "strings.chars-wide", "strings.ops{str = %s}.chars" % s, list(st)
            for i in range(0, len(st) + 1):
                yield "strings.split_at-wide", "strings.ops{str = %s}.split_at(%d)" % (s, i), {"left": st[:i], "right": st[i:]}
            for a in range(0, len(st)):
                for b in range(a, len(st)):
                    yield "strings.substr-wide", "strings.ops{str = %s}.substr{start = %d, end = %d}.str" % (s, a, b), st[a:b + 1]
            for sep in ["-", ch, "a"]:
                yield "strings.split_on-wide", "strings.ops{str = %s}.split_on{on = %s}" % (s, S(sep)), st.split(sep)
                yield "strings.split-join-law-wide", "lists.str_join{list = strings.ops{str = %s}.split_on{on = %s}, sep = %s}" % (s, S(sep), S(sep)), st
    import re as _re
    pool = ["0", "7", "12", "007", "12a", "1-2", "9é", "42 ", "123456789", "5b5"]
    # every digit-led string of length <= 3 over ASCII digits, a letter, a sign, a blank and
    # decimal digits of other scripts (the result is the leading run of ASCII digits)
    alpha = ["1", "0", "9", "a", "-", " ", "\u0663", "\uff14", "\u096b", "é"]
    for ln in (1, 2, 3):
        for t in itertools.product(alpha, repeat=ln):
            st = "".join(t)
            if st[0] in "109" and st not in pool:
                pool.append(st)
    for st in pool:
        yield "strings.parse_int", "strings.ops{str = %s}.parse_int().unwrap()" % S(st), int(_re.match(r"[0-9]+", st).group(0))
    # long runs of digits: every value of an i64 is exact (a detour through a float is not, from 2^53 on)
    for st in ["9007199254740992", "9007199254740993", "9007199254740995", "123456789012345678", "999999999999999999", "1000000000000000001",
               "9223372036854775807", "9223372036854775806", "4611686018427387905", "00000000000000000042"]:
        yield "strings.parse_int-many-digits", "strings.ops{str = %s}.parse_int().unwrap()" % S(st), int(st)
        yield "strings.parse_int-many-digits", "strings.ops{str = %s}.parse_int().unwrap()" % S(st + "x"), int(st)
    # no integer at the beginning of the string: the maybe that parse_int returns holds nothing
    for ln in (0, 1, 2):
        for t in itertools.product(alpha, repeat=ln):
            st = "".join(t)
            if st == "" or st[0] not in "109":
                yield "strings.parse_int-nothing-to-parse", "strings.ops{str = %s}.parse_int().is_null()" % S(st), True
                yield "strings.parse_int-nothing-to-parse", "strings.ops{str = %s}.parse_int().or(seven).unwrap()" % S(st), 7
    # functional.maybe
    for v in (None, 1):
        s = S(v)
        yield "functional.maybe.do", "f.maybe{val = %s}.do(plus1).unwrap()" % s, None if v is None else v + 1
        yield "functional.maybe.or", "f.maybe{val = %s}.or(seven).unwrap()" % s, 7 if v is None else v
        yield "functional.maybe.is_null", "f.maybe{val = %s}.is_null()" % s, v is None
        yield "functional.maybe.unwrap", "f.maybe{val = %s}.unwrap()" % s, v
        yield "functional.maybe.expect", "f.maybe{val = %s}.expect(\"needed\")" % s, ("fail",) if v is None else v
        yield "functional.maybe.chain", "f.maybe{val = %s}.do(plus1).do(plus1).or(seven).unwrap()" % s, 7 if v is None else v + 2
    # schema
    shapes = [0, 0.0, "", True, None, {}, {"a": 0}, {"a": 0, "b": ""}, {"a": {"b": 0}}, {"a": {"b": 0}, "c": ""}, [], [0], [0, ""]]
    svals = [1, 1.5, "s", False, None, {}, {"a": 1}, {"a": "x"}, {"a": 1, "b": "y"}, {"a": "x", "b": 1}, {"a": 1, "b": "y", "c": 2}, {"b": "y"},
             {"a": {"b": 1}}, {"a": {"b": "x"}}, {"b": "y", "a": 1}, {"a": {"b": 1, "z": 2}}, {"a": {"b": 1}, "c": "s"}, {"a": {"z": 2, "b": 1}, "c": "s", "d": 1},
             {"a": {}}, [], [1], ["s"], [1, "s"], [True]]
    for v in svals + [[[1]]]:
        yield "schema.base_type_of", "schema.base_type_of(%s)" % S(v), {type(None): "null", bool: "bool", int: "int", float: "float", str: "str", list: "list", dict: "tuple"}[type(v)]
    for sh in shapes:
        for v in svals:
            for partial in (True, False):
                yield "schema.shaped", "schema.shaped{val = %s, shape = %s, partial = %s}" % (S(v), S(sh), "true" if partial else "false"), ref_shaped(v, sh, partial)
    # lists against list shapes: every list of 1..3 elements over {conforming, conforming other type, not conforming, nested} — the element that
    # does not conform stands first, in the middle and last
    lelems = [1, "s", True, [1], {"a": 1}]
    for sh in ([0], [0, ""], [[0]], [{"a": 0}]):
        for n in range(1, 4):
            for t in itertools.product(lelems, repeat=n):
                yield "schema.shaped-list", "schema.shaped{val = %s, shape = %s}" % (S(list(t)), S(sh)), ref_shaped(list(t), sh, True)
        for t in itertools.product(lelems, repeat=2):
            yield "schema.shaped-list-nested", "schema.shaped{val = %s, shape = %s}" % (S({"l": list(t)}), S({"l": sh})), ref_shaped({"l": list(t)}, {"l": sh}, True)
    # the partial flag reaches the tuples inside a list as it reaches the tuples inside a tuple
    telems = [{"a": 1}, {"a": 1, "b": "y"}, {"a": "x"}, {"b": "y"}, 1]
    for sh in ([{"a": 0}], [{"a": 0}, 0], [{"a": 0, "b": ""}]):
        for n in (1, 2):
            for t in itertools.product(telems, repeat=n):
                for partial in (True, False):
                    yield ("schema.shaped-list-partial", "schema.shaped{val = %s, shape = %s, partial = %s}" % (S(list(t)), S(sh), "true" if partial else "false"),
                           ref_shaped(list(t), sh, partial))
                yield "schema.shaped-list-partial", "schema.shaped{val = %s, shape = %s}" % (S({"l": list(t)}), S({"l": sh})), ref_shaped({"l": list(t)}, {"l": sh}, True)
    # tuples that come out of a copy: the fields keep the place they had in the base, added ones follow in the order written
    ctups = [("tb3{a = 9}", [("a", 9), ("b", 2), ("c", 3)]), ("tb3{b = 9}", [("a", 1), ("b", 9), ("c", 3)]),
             ("tb3{c = 9}", [("a", 1), ("b", 2), ("c", 9)]), ("tb3{b = 8, a = 9}", [("a", 9), ("b", 8), ("c", 3)]),
             ("tb2{z = 0, a = 9}", [("a", 9), ("b", 2), ("z", 0)]), 
             ("tbn{a = NULL}", [("a", None), ("b", None), ("c", 3)]), ("{a = 1, b = 2, a = 3}", [("a", 3), ("b", 2)])]
    for src, flds in ctups:
        yield "tuples.fields-of-a-copy", "tuples.fields{tpl = %s}" % src, [n for n, _ in flds]
        yield "tuples.values-of-a-copy", "tuples.values{tpl = %s}" % src, [v for _, v in flds]
        yield "tuples.iter-of-a-copy", "tuples.iter{tpl = %s}" % src, [[n, v] for n, v in flds]
        yield "tuples.strip_nulls-of-a-copy", "tuples.fields{tpl = tuples.strip_nulls{tpl = %s}}" % src, [n for n, v in flds if v is not None]
        yield "tuples.ops-of-a-copy", "tuples.ops{tpl = %s}.fields()" % src, [n for n, _ in flds]
    # a module-style helper called inside a tuple copy, and `self` used by a later field of the same copy
    yield "helpers-inside-a-copy", "cbase{first = lists.slice{end = 1, list = [7, 8, 9]}, n = lists.len(self.xs)}.n", 3
    yield "helpers-inside-a-copy", "cbase{parts = strings.ops{str = \"a-b\"}.split_on{on = \"-\"}, n = lists.len(self.xs)}.n", 3
    yield "helpers-inside-a-copy", "cbase{flds = tuples.fields{tpl = {a = 1}}, n = lists.len(self.xs)}.n", 3
    yield "helpers-inside-a-copy", "cbase{o = self.o{cut = lists.slice{end = 0, list = [7, 8]}, n = lists.len(self.xs)}}.o.n", 1
    yield "helpers-inside-a-copy", "cbase{z = lists.zip{list1 = [1], list2 = [2]}, r = lists.reverse(self.xs)}.r", [3, 2, 1]
    typesets = [[0], [0, ""], ["", {"a": 0}], [{"a": 0}, {"b": ""}], [[], 0]]
    for ts in typesets:
        for v in svals:
            yield "schema.any", "schema.any{val = %s, types = %s}" % (S(v), S(ts)), any(ref_shaped(v, t, False) for t in ts)
            yield "schema.all", "schema.all{val = %s, types = %s}" % (S(v), S(ts)), all(ref_shaped(v, t, True) for t in ts)


_DIR = None
_cnt = itertools.count()


def sdir():
    global _DIR
    if _DIR is None or _DIR[0] != os.getpid():
        d = tempfile.mkdtemp(prefix="ucgverif-c19-")
        _DIR = (os.getpid(), d)
        import atexit
        atexit.register(shutil.rmtree, d, True)
    return _DIR[1]


def build_file(srv, lines):
    p = os.path.join(sdir(), "s%d_%d.ucg" % (os.getpid(), next(_cnt)))
    with open(p, "w") as f:
        f.write(IMPORTS + "".join(lines))
    rs = srv.req({"op": "build", "path": p}, timeout=15)
    os.unlink(p)
    return rs


def judge_one(exp, rs, name):
    if "ok" in rs:
        got = dict(map(tuple, rs["ok"]["t"])).get(name, "MISSING")
        if exp == ("fail",):
            return "does-not-fail", {"bound": got}
        if got != W(exp):
            return "wrong-result", {"expected": W(exp), "bound": got}
        return None, None
    if "err" in rs:
        if exp == ("fail",):
            return None, None
        return "fails", rs["err"][:300]
    return "crash", rs


HANG_CAP = 3      # calls that do not return within the watchdog's time, per worker chunk, before the rest of the chunk is left out


def work(chunk):
    # a helper call takes milliseconds; one that is still running after 15 s is reported as a hang
    srv = core.worker_server(timeout=15)
    hist = {}
    viol = []
    B = 25
    hangs = 0
    skipped = 0
    for i in range(0, len(chunk), B):
        batch = chunk[i:i + B]
        if hangs >= HANG_CAP:
            skipped += len(batch)
            continue
        expect_fail = any(e == ("fail",) for _, _, e in batch)
        rs = None
        if not expect_fail:
            rs = build_file(srv, ["let r%d = %s;\n" % (k, expr) for k, (_, expr, _) in enumerate(batch)])
        if rs is not None and "ok" in rs:
            results = [(judge_one(e, rs, "r%d" % k)) for k, (_, _, e) in enumerate(batch)]
        else:
            # isolate: one file per call
            results = []
            for k, (_, expr, e) in enumerate(batch):
                if hangs >= HANG_CAP:
                    results.append(("not-run-after-repeated-hangs", None))
                    continue
                r1 = build_file(srv, ["let r0 = %s;\n" % expr])
                if "ok" not in r1 and "err" not in r1:
                    hangs += 1          # no verdict from the compiler: it hung, ran out of memory or died
                results.append(judge_one(e, r1, "r0"))
        for (helper, expr, e), (bad, det) in zip(batch, results):
            if bad == "not-run-after-repeated-hangs":
                skipped += 1
                continue
            k = "%s:%s" % (helper, "as-documented" if bad is None else bad.upper())
            hist[k] = hist.get(k, 0) + 1
            if bad:
                viol.append((helper, expr, bad, det))
    srv.recycle()
    if skipped:
        hist["not-run-after-%d-hangs-in-one-chunk" % HANG_CAP] = skipped
    return {"evals": len(chunk) - skipped, "hist": hist, "viol": viol[:300], "skipped": skipped}


def arg_class(expr):
    """abstract the call: helper + sizes of the literal arguments"""
    import re
    e = re.sub(r'"[^"]*"', "S", expr)
    e = re.sub(r"\b\d+\b", "N", e)
    e = re.sub(r"\s+", " ", e)
    return e[:90]


def run(ctx):
    thorough = ctx.tier == "thorough"
    cs = list(calls(thorough))
    helpers = sorted(set(c[0] for c in cs))
    ctx.bounds = {"list_length": 4 if thorough else 3, "list_elements": 5, "string_length": 4 if thorough else 3, "string_alphabet": 4, "tuple_fields": 3,
                  "helpers": len(helpers), "calls": len(cs)}
    ctx.rule = ("every list of length 0..%d over {1, \"a\", NULL, [1], {a=1}} for len/reverse/head/tail/enumerate/ops, all (start, end) index pairs "
                "for slice, pairs of lists of length 0..3 over 2 elements for zip, 3 separators for str_join; every tuple of 0..3 fields over 3 "
                "names x {1, \"s\", NULL} for fields/values/iter/strip_nulls/has_fields; every string of length 0..%d over {a, b, -, e-acute} for "
                "len/chars, every index for split_at, every (start, end) for substr, 4 separators for split_on and the split/join law; "
                "every digit-led string of length <= 3 over {1, 0, 9, a, -, blank, three non-ASCII decimal digits, é} for parse_int; maybe over {NULL, 1} x 6 operations; schema.base_type_of/shaped/any/all over an 11 x 20 "
                "shape x value grid x partial. Each call is one let in a built file importing std/*.ucg; all calls distinct." % (
                    4 if thorough else 3, 4 if thorough else 3))
    viol = []
    for part in core.pmap(work, cs, chunk=100):
        ctx.count(part["evals"], part["evals"])
        for k, v in part["hist"].items():
            ctx.outcome(k, v)
        viol.extend(part["viol"])
        if part.get("skipped"):
            ctx.cap("%d calls were not run after %d calls in their chunk did not return within 15 s (each is reported)" % (part["skipped"], HANG_CAP))
    ctx.sample({"call": 'lists.zip{list1 = [1, "a"], list2 = [1]}', "reference": [[1, 1]]})
    ctx.sample({"call": 'strings.ops{str = "a-b"}.split_on{on = "-"}', "reference": ["a", "b"]})
    seen = {}
    for helper, expr, bad, det in sorted(viol, key=lambda v: len(v[1])):
        sig = "%s:%s" % (helper, bad)
        if sig in seen:
            ctx.violations[sig]["count"] += 1
            continue
        seen[sig] = 1
        ctx.violation(sig, "%s: `%s` %s" % (helper, expr, bad), {"kind": "stdlib", "helper": helper, "expr": expr, "failure": bad, "detail": det})


def replay(case):
    for helper, expr, e in calls(True):
        if expr == case["expr"]:
            core._WORKER_SERVER = None
            part = work([(helper, expr, e)])
            core.worker_server().close()
            core._WORKER_SERVER = None
            return not part["viol"], {"violations": part["viol"]}
    return False, {"error": "call not found"}
