"""C01 — compiled evaluation equals the definitional semantics.

E1: programs are enumerated by construct strata over a harness-side mini-AST, printed to source
with minimal parentheses, evaluated by the real `FileBuilder::eval_string` (parse -> translate ->
VM) and compared with the tree-walking reference interpreter of vf/refsem.py: success/failure,
the coarse failure class, and on success structural equality of every top-level binding.
"""
import itertools

from vf import core, refsem
from vf.refsem import pr_prog

LEVEL = "exploration"

I = lambda n: ("int", n)          # noqa: E731
S = lambda s: ("str", s)          # noqa: E731
SYM = lambda s: ("sym", s)        # noqa: E731
T = lambda *f: ("tuple", list(f))  # noqa: E731
L = lambda *x: ("list", list(x))  # noqa: E731
B = lambda op, l, r: ("bin", op, l, r)  # noqa: E731
TRUE, FALSE, NUL = ("bool", True), ("bool", False), ("null",)

OPS = ["+", "-", "*", "/", "%%", "==", "!=", ">", "<", ">=", "<=", "~", "!~", "in", "is", "&&", "||", "."]

# atom pool A: (type class, expr)
ATOMS = [
    ("int0", I(0)), ("int", I(1)), ("int", I(2)), ("int", I(7)), ("intmax", I(refsem.I64_MAX)),
    ("negint", I(-3)), ("intmin", I(refsem.I64_MIN)),
    ("float0", ("float", 0.0)), ("float", ("float", 1.5)), ("negfloat", ("float", -2.5)),
    ("str-empty", S("")), ("str", S("a")), ("str", S("ab")),
    ("bool", TRUE), ("bool", FALSE), ("null", NUL),
    ("list-empty", L()), ("list", L(I(1), I(2))), ("list", L(S("a"))),
    ("tuple-empty", T()), ("tuple", T(("a", I(1)))), ("tuple", T(("a", I(1)), ("b", S("x")))), ("tuple", T(("b", S("x")), ("a", I(1)))),
    ("list", L(T(("b", S("x")), ("a", I(1))))),
]

PRELUDE = [
    ("let", "f1", ("func", ["a"], B("+", SYM("a"), I(1)))),
    ("let", "f2", ("func", ["a", "b"], B("-", SYM("a"), SYM("b")))),
    ("let", "ident", ("func", ["a"], SYM("a"))),
    ("let", "kv", ("func", ["k", "v"], L(B("+", SYM("k"), S("x")), SYM("v")))),
    ("let", "acc2", ("func", ["acc", "x"], B("+", SYM("acc"), SYM("x")))),
    ("let", "acc3", ("func", ["acc", "k", "v"], B("+", SYM("acc"), L(SYM("k"))))),
    ("let", "t1", T(("a", I(1)), ("b", S("s")))),
    ("let", "t2", T(("inner", T(("x", I(2)), ("f", ("func", ["q"], B("*", SYM("q"), I(2)))))), ("l", L(I(1), I(2), I(3))))),
    ("let", "l1", L(I(1), I(2), I(3))),
    ("let", "m1", ("module", [("p", I(1))], None, [("let", "r", B("+", B(".", SYM("mod"), SYM("p")), I(1)))])),
    ("let", "m2", ("module", [("p", I(1))], B("*", SYM("r"), I(2)), [("let", "r", B("+", B(".", SYM("mod"), SYM("p")), I(1)))])),
]

INLINE_F = lambda params, body: T(("f", ("func", params, body)))   # noqa: E731


def call_field(tup, args):
    return B(".", tup, ("call", SYM("f"), args))


def mod_field(params, out, stmts, over):
    return B(".", T(("m", ("module", params, out, stmts))), ("copy", SYM("m"), over))


# templates: (name, [slot defaults], builder(slots) -> expr)
TEMPLATES = []


def tpl(name, defaults, fn):
    TEMPLATES.append((name, defaults, fn))


for _op, _d in [("+", I(1)), ("-", I(1)), ("*", I(2)), ("/", I(2)), ("%%", I(2)), ("==", I(1)), ("!=", I(1)), (">", I(1)), ("<", I(1)),
                (">=", I(1)), ("<=", I(1)), ("~", S("a")), ("!~", S("a")), ("is", S("int"))]:
    tpl("bin%s/L" % _op, [_d], lambda s, o=_op, d=_d: B(o, s[0], d))
    tpl("bin%s/R" % _op, [_d], lambda s, o=_op, d=_d: B(o, d, s[0]))
tpl("in/needle-list", [I(1)], lambda s: B("in", s[0], SYM("l1")))
tpl("in/container", [L(I(1))], lambda s: B("in", I(1), s[0]))
tpl("in/sym-needle", [T(("a", I(1)))], lambda s: B("in", SYM("a"), s[0]))
tpl("and/L-true", [TRUE], lambda s: B("&&", s[0], TRUE))
tpl("and/R-after-true", [TRUE], lambda s: B("&&", TRUE, s[0]))
tpl("and/R-after-false", [TRUE], lambda s: B("&&", FALSE, s[0]))
tpl("or/L-false", [FALSE], lambda s: B("||", s[0], FALSE))
tpl("or/R-after-false", [TRUE], lambda s: B("||", FALSE, s[0]))
tpl("or/R-after-true", [TRUE], lambda s: B("||", TRUE, s[0]))
tpl("not", [TRUE], lambda s: ("not", s[0]))
tpl("group", [I(1)], lambda s: ("group", s[0]))
tpl("list/0", [I(1)], lambda s: L(s[0], I(2)))
tpl("list/1", [I(2)], lambda s: L(I(1), s[0]))
tpl("tuple/0", [I(1)], lambda s: T(("a", s[0]), ("b", I(2))))
tpl("tuple/1", [I(2)], lambda s: T(("a", I(1)), ("b", s[0])))
tpl("tuple/dup", [I(2)], lambda s: T(("a", I(1)), ("a", s[0])))
tpl("dot/target", [SYM("t1")], lambda s: B(".", ("group", s[0]), SYM("a")))
tpl("dot/computed-name", [S("a")], lambda s: B(".", SYM("t1"), ("group", s[0])))
tpl("dot/computed-index", [I(1)], lambda s: B(".", SYM("l1"), ("group", s[0])))
tpl("dot/deep", [I(0)], lambda s: B(".", B(".", SYM("t2"), SYM("l")), ("group", s[0])))
tpl("select/val", [S("a")], lambda s: ("select", s[0], I(0), [("a", I(1)), ("b", I(2))]))
tpl("select/val-bool", [TRUE], lambda s: ("select", s[0], None, [("true", I(1)), ("false", I(2))]))
tpl("select/default-unused", [I(0)], lambda s: ("select", S("a"), s[0], [("a", I(1))]))
tpl("select/default-used", [I(0)], lambda s: ("select", S("z"), s[0], [("a", I(1))]))
tpl("select/arm-hit-first", [I(1)], lambda s: ("select", S("a"), I(0), [("a", s[0]), ("b", I(2))]))
tpl("select/arm-hit-second", [I(2)], lambda s: ("select", S("b"), I(0), [("a", I(1)), ("b", s[0])]))
tpl("select/arm-skipped", [I(1)], lambda s: ("select", S("b"), I(0), [("a", s[0]), ("b", I(2))]))
tpl("select/arm-nodefault", [I(1)], lambda s: ("select", S("a"), None, [("a", s[0])]))
tpl("select/unhandled", [I(1)], lambda s: ("select", S("z"), None, [("a", s[0])]))
tpl("func/body", [I(1)], lambda s: call_field(INLINE_F(["p"], s[0]), [I(3)]))
tpl("func/arg", [I(3)], lambda s: call_field(INLINE_F(["p"], B("+", SYM("p"), I(1))), [s[0]]))
tpl("func/arg0of2", [I(5)], lambda s: call_field(INLINE_F(["p", "q"], B("-", SYM("p"), SYM("q"))), [s[0], I(1)]))
tpl("func/arg1of2", [I(1)], lambda s: call_field(INLINE_F(["p", "q"], B("-", SYM("p"), SYM("q"))), [I(5), s[0]]))
tpl("call/let-bound", [I(1)], lambda s: ("call", SYM("f1"), [s[0]]))
tpl("call/let-bound2", [I(1)], lambda s: ("call", SYM("f2"), [I(9), s[0]]))
tpl("call/deep-field", [I(3)], lambda s: ("call", B(".", B(".", SYM("t2"), SYM("inner")), SYM("f")), [s[0]]))
tpl("copy/override", [I(2)], lambda s: ("copy", SYM("t1"), [("a", s[0])]))
tpl("copy/new-field", [I(2)], lambda s: ("copy", SYM("t1"), [("c", s[0])]))
tpl("copy/self", [I(1)], lambda s: ("copy", SYM("t1"), [("a", B("+", B(".", SYM("self"), SYM("a")), s[0]))]))
tpl("copy/two", [I(2)], lambda s: ("copy", SYM("t1"), [("c", s[0]), ("d", B(".", SYM("self"), SYM("b")))]))
tpl("copy/selector-base", [I(5)], lambda s: ("copy", B(".", SYM("t2"), SYM("inner")), [("x", s[0])]))
tpl("module/param-default", [I(1)], lambda s: mod_field([("p", s[0])], None, [("let", "r", B(".", SYM("mod"), SYM("p")))], []))
tpl("module/out-expr", [I(1)], lambda s: mod_field([("p", I(1))], s[0], [("let", "r", B(".", SYM("mod"), SYM("p")))], []))
tpl("module/body", [I(1)], lambda s: mod_field([("p", I(1))], None, [("let", "r", s[0]), ("let", "q", B(".", SYM("mod"), SYM("p")))], []))
tpl("module/override", [I(2)], lambda s: ("copy", SYM("m1"), [("p", s[0])]))
tpl("module/override-out", [I(2)], lambda s: ("copy", SYM("m2"), [("p", s[0])]))
tpl("module/body-then-out", [I(1)], lambda s: mod_field([("p", I(1))], B("+", SYM("r"), I(1)), [("let", "r", s[0])], []))
tpl("map/list-target", [SYM("l1")], lambda s: ("map", SYM("f1"), s[0]))
tpl("map/ident-target", [SYM("l1")], lambda s: ("map", SYM("ident"), s[0]))
tpl("map/tuple-target", [SYM("t1")], lambda s: ("map", SYM("kv"), s[0]))
tpl("map/callback-body", [I(1)], lambda s: ("map", ("func", ["a"], s[0]), L(I(1), I(2))))
tpl("map/callback-body-tuple", [L(S("n"), I(1))], lambda s: ("map", ("func", ["k", "v"], s[0]), T(("a", I(1)), ("b", I(2)))))
tpl("map/callback-body-str", [S("x")], lambda s: ("map", ("func", ["c"], s[0]), S("ab")))
tpl("map/func", [SYM("f1")], lambda s: ("map", s[0], L(I(1), I(2))))
tpl("filter/callback-body", [TRUE], lambda s: ("filter", ("func", ["a"], s[0]), L(I(1), I(2))))
tpl("filter/callback-body-tuple", [TRUE], lambda s: ("filter", ("func", ["k", "v"], s[0]), T(("a", I(1)), ("b", I(2)))))
tpl("filter/target", [SYM("l1")], lambda s: ("filter", ("func", ["a"], B(">", SYM("a"), I(1))), s[0]))
tpl("filter/target-str", [S("abc")], lambda s: ("filter", ("func", ["c"], B("!=", SYM("c"), S("b"))), s[0]))
tpl("reduce/acc", [I(0)], lambda s: ("reduce", SYM("acc2"), s[0], SYM("l1")))
tpl("reduce/target", [SYM("l1")], lambda s: ("reduce", SYM("acc2"), I(0), s[0]))
tpl("reduce/target-tuple", [SYM("t1")], lambda s: ("reduce", SYM("acc3"), L(), s[0]))
tpl("reduce/callback-body", [I(1)], lambda s: ("reduce", ("func", ["acc", "a"], s[0]), I(0), L(I(1), I(2))))
tpl("reduce/str", [S("ab")], lambda s: ("reduce", ("func", ["acc", "c"], B("+", SYM("c"), SYM("acc"))), S(""), s[0]))
tpl("format/arg0", [I(1)], lambda s: ("format", "a@b@", [s[0], I(2)]))
tpl("format/arg1", [I(2)], lambda s: ("format", "a@b@", [I(1), s[0]]))
tpl("format/single-paren", [I(1)], lambda s: ("format", "<@>", [s[0]]))
tpl("format/escaped", [I(1)], lambda s: ("format", "\\@@", [s[0]]))
tpl("format/count-mismatch", [I(1)], lambda s: ("format", "@ @", [s[0]]))
# backslashes in a template: an escaped backslash (two in the template's value) is one backslash and ends the escape
tpl("format/escaped-backslash", [I(1)], lambda s: ("format", "a\\\\b @", [s[0]]))
tpl("format/escaped-backslash-before-placeholder", [I(1)], lambda s: ("format", "\\\\@", [s[0]]))
tpl("format/escaped-backslash-then-escaped-at", [I(1)], lambda s: ("format", "\\\\\\@ @", [s[0]]))
tpl("format/backslash-before-letter", [I(1)], lambda s: ("format", "\\n@", [s[0]]))
tpl("formatx/backslash-in-text", [I(1)], lambda s: ("formatx", ["a\\b", s[0], "\\"], I(0)))
tpl("formatx/item", [I(1)], lambda s: ("formatx", ["<", SYM("item"), ">"], s[0]))
tpl("formatx/expr", [I(1)], lambda s: ("formatx", ["v=", s[0], ";", B(".", SYM("item"), SYM("a"))], T(("a", I(1)))))
tpl("range/start", [I(0)], lambda s: ("range", s[0], None, I(3)))
tpl("range/end", [I(3)], lambda s: ("range", I(0), None, s[0]))
tpl("range/step", [I(2)], lambda s: ("range", I(0), s[0], I(4)))
tpl("cast/int", [S("1")], lambda s: ("cast", "int", s[0]))
tpl("cast/float", [I(1)], lambda s: ("cast", "float", s[0]))
tpl("cast/str", [I(1)], lambda s: ("cast", "str", s[0]))
tpl("cast/bool", [S("true")], lambda s: ("cast", "bool", s[0]))
tpl("fail", [S("boom")], lambda s: ("fail", s[0]))
tpl("trace", [I(1)], lambda s: ("trace", s[0]))

# failing / ill-typed leaves in addition to the atoms
BAD_LEAVES = [
    ("unbound", SYM("nosuch")), ("ill-typed", B("+", I(1), S("a"))), ("user-fail", ("fail", S("inner"))), ("div0", B("/", I(1), I(0))),
    ("overflow", B("+", I(refsem.I64_MAX), I(1))), ("self-outside-copy", SYM("self")),
]

TNAMES = [t[0] for t in TEMPLATES]


def has_string_literal(e):
    if isinstance(e, tuple):
        if e and e[0] == "str":
            return True
        return any(has_string_literal(x) for x in e[1:])
    if isinstance(e, list):
        return any(has_string_literal(x) for x in e)
    return False


def build_path(path, leaf):
    """path: list of template indices (outermost first); the leaf fills the innermost slot; all
    other slots take their defaults."""
    e = leaf
    for ti in reversed(path):
        name, defaults, fn = TEMPLATES[ti]
        e = fn([e])
    return e


PRELUDE_NAMES = {p[1] for p in PRELUDE}


def symbols_in(x, out):
    if isinstance(x, tuple) and len(x) == 2 and x[0] == "sym":
        out.add(x[1])
    elif isinstance(x, (tuple, list)):
        for c in x:
            if isinstance(c, (tuple, list)):
                symbols_in(c, out)
    return out


def program(expr, as_stmt=False):
    """Only the prelude bindings the expression mentions are included: the tokenizer costs about
    4 us per byte, so a fixed 450-byte prelude would dominate the run."""
    used = symbols_in(expr, set())
    return [p for p in PRELUDE if p[1] in used] + [("expr", expr) if as_stmt else ("let", "r", expr)]


def prelude_len(stmts):
    n = 0
    while n < len(stmts) - 1 and any(stmts[n] is p or stmts[n] == p for p in PRELUDE):
        n += 1
    return n


# ---------------------------------------------------------------------------------------------
# S4: statement sequences with scoping

def gen_s4():
    names = ["x", "y", "item", "p"]
    # P1: closure over earlier lets, parameter shadowing, later bindings invisible
    for n1 in names:
        for n2 in names:
            for n3 in names:
                for n4 in names + [None]:
                    st = [("let", n1, I(1)), ("let", "f", ("func", [n2], B("+", SYM(n3), I(100))))]
                    if n4:
                        st.append(("let", n4, I(2)))
                    st.append(("let", "r", ("call", SYM("f"), [I(10)])))
                    yield ("s4/closure", n1, n2, n3, n4 or "-"), st
    # P2: functions returning functions
    for a in ["a", "b", "x"]:
        for b in ["a", "b", "x"]:
            for use in ["a", "b", "x"]:
                st = [("let", "x", I(1000)),
                      ("let", "mk", ("func", [a], ("func", [b], B("+", SYM(use), B("*", SYM(a), I(10)))))),
                      ("let", "g", ("call", SYM("mk"), [I(1)])), ("let", "r", ("call", SYM("g"), [I(2)]))]
                yield ("s4/curried", a, b, use), st
    # P3: module isolation and parameter names coinciding with outer lets
    for n1 in ["x", "p", "mod"]:
        for n2 in ["x", "p"]:
            for n4 in ["x", "p", "q", "mod"]:
                st = [("let", n1, I(5)),
                      ("let", "m", ("module", [(n2, I(1))], None,
                                    [("let", "q", B("+", B(".", SYM("mod"), SYM(n2)), I(1))), ("let", "z", SYM(n4))])),
                      ("let", "r", ("copy", SYM("m"), []))]
                yield ("s4/module-scope", n1, n2, n4), st
    # P3b: function and module values compared: a value equals itself (under any name) and nothing else
    one = I(1)
    fdefs = [("let", "f", ("func", ["x"], B("+", SYM("x"), one))), ("let", "g", ("func", ["x"], B("+", SYM("x"), I(2)))), ("let", "h", SYM("f")),
             ("let", "k", ("func", ["y"], B("+", SYM("y"), one))),
             ("let", "m", ("module", [("a", one)], None, [("let", "b", B(".", SYM("mod"), SYM("a")))])),
             ("let", "n", ("module", [("a", one)], None, [("let", "b", B("+", B(".", SYM("mod"), SYM("a")), one))]))]
    cmps = [("f", "g"), ("f", "h"), ("f", "f"), ("g", "f"), ("f", "k"), ("m", "n"), ("m", "m"), ("h", "g")]
    for a, b in cmps:
        yield ("s4/callable-equality", "==", a, b), fdefs + [("let", "r", B("==", SYM(a), SYM(b)))]
        yield ("s4/callable-equality", "!=", a, b), fdefs + [("let", "r", B("!=", SYM(a), SYM(b)))]
        yield ("s4/callable-equality", "in-list", a, b), fdefs + [("let", "r", B("in", SYM(a), L(SYM(b))))]
        yield ("s4/callable-equality", "in-list-second", a, b), fdefs + [("let", "r", B("in", SYM(a), L(SYM("k"), SYM(b))))]
        yield ("s4/callable-equality", "inside-tuple", a, b), fdefs + [("let", "r", B("==", T(("v", SYM(a))), T(("v", SYM(b)))))]
        yield ("s4/callable-equality", "inside-list", a, b), fdefs + [("let", "r", B("==", L(SYM(a)), L(SYM(b))))]
    # ... and two different functions made in one and the same scope (fields of one tuple, elements of one list, made by one call)
    inc, dec = ("func", ["x"], B("+", SYM("x"), one)), ("func", ["x"], B("-", SYM("x"), one))
    pairs = [("tuple-fields", [("let", "t", T(("inc", inc), ("dec", dec)))], B(".", SYM("t"), SYM("inc")), B(".", SYM("t"), SYM("dec"))),
             ("list-elements", [("let", "l", L(inc, dec))], B(".", SYM("l"), I(0)), B(".", SYM("l"), I(1))),
             ("made-by-one-call", [("let", "mk", ("func", ["a"], T(("add", ("func", ["x"], B("+", SYM("x"), SYM("a")))), ("sub", ("func", ["x"], B("-", SYM("x"), SYM("a"))))))),
                                   ("let", "t", ("call", SYM("mk"), [one]))], B(".", SYM("t"), SYM("add")), B(".", SYM("t"), SYM("sub"))),
             ("made-by-two-calls", [("let", "mk", ("func", ["a"], ("func", ["x"], B("+", SYM("x"), SYM("a"))))), ("let", "p", ("call", SYM("mk"), [one])),
                                    ("let", "q", ("call", SYM("mk"), [I(2)]))], SYM("p"), SYM("q"))]
    for pn, defs, a, b in pairs:
        for x, y, tag in ((a, b, "different"), (a, a, "same")):
            yield ("s4/callable-equality-one-scope", pn, tag, "=="), defs + [("let", "r", B("==", x, y))]
            yield ("s4/callable-equality-one-scope", pn, tag, "!="), defs + [("let", "r", B("!=", x, y))]
            yield ("s4/callable-equality-one-scope", pn, tag, "in"), defs + [("let", "r", B("in", x, L(y)))]
    # P4: format `item` scope
    for n1 in ["item", "x"]:
        for n2 in ["item", "x"]:
            st = [("let", n1, I(1)), ("let", "s", ("formatx", ["<", SYM("item"), ">"], I(2))), ("let", "r", SYM(n2))]
            yield ("s4/format-item", n1, n2), st
            st = [("let", "s", ("formatx", ["<", SYM("item"), ">"], I(2))), ("let", "r", SYM(n2))]
            yield ("s4/format-item-unbound", n2), st
    # P5: deep interaction programs (select inside func inside map inside module, ...)
    inner_sel = ("select", B(">", SYM("a"), I(1)), None, [("true", B("*", SYM("a"), I(10))), ("false", B(".", SYM("mod"), SYM("base")))])
    st = [("let", "m", ("module", [("base", I(7)), ("xs", L(I(1), I(2), I(3)))], SYM("out"),
                        [("let", "out", ("map", ("func", ["a"], inner_sel), B(".", SYM("mod"), SYM("xs"))))])),
          ("let", "r", ("copy", SYM("m"), [("base", I(9))])), ("let", "r2", ("copy", SYM("m"), []))]
    yield ("s4/deep", "select-in-func-in-map-in-module"), st
    st = [("let", "t", T(("a", I(1)), ("b", T(("c", I(2)))))),
          ("let", "r", ("copy", SYM("t"), [("b", ("copy", B(".", SYM("self"), SYM("b")), [("c", B("+", B(".", SYM("self"), SYM("c")), I(1))),
                                                                                            ("d", ("formatx", [SYM("item")], I(3)))]))]))]
    yield ("s4/deep", "nested-copy-self"), st
    st = [("let", "fs", L(("func", ["a"], B("+", SYM("a"), I(1))), ("func", ["a"], B("*", SYM("a"), I(2))))),
          ("let", "r", ("reduce", ("func", ["acc", "f"], ("call", SYM("f"), [SYM("acc")])), I(5), SYM("fs")))]
    yield ("s4/deep", "list-of-funcs-reduce"), st
    st = [("let", "sel", ("func", ["k"], ("select", SYM("k"), ("fail", B("+", S("no "), SYM("k"))), [("a", I(1)), ("b", ("range", I(0), None, I(2)))]))),
          ("let", "r", ("map", SYM("sel"), L(S("a"), S("b")))), ("let", "r2", ("call", SYM("sel"), [S("c")]))]
    yield ("s4/deep", "select-default-fail"), st
    # P6: closures made by one factory, each over another value, and called one after the other: every way of making
    # them x every way of calling them (added after a sixth-round seeded change: captured scopes compared by their names
    # only, and the result of the previous call handed to an "equal" call)
    mk = ("let", "mk", ("func", ["n"], ("func", ["x"], B("+", SYM("x"), SYM("n")))))
    makers = {
        "two-calls": [mk] + [("let", "c%d" % i, ("call", SYM("mk"), [I(i + 1)])) for i in range(3)],
        "via-helper": [mk, ("let", "via", ("func", ["k"], ("call", SYM("mk"), [SYM("k")])))] + [("let", "c%d" % i, ("call", SYM("via"), [I(i + 1)])) for i in range(3)],
        "via-map-callback": [mk, ("let", "fs", ("map", ("func", ["i"], ("call", SYM("mk"), [SYM("i")])), L(I(1), I(2), I(3))))] + [("let", "c%d" % i, B(".", SYM("fs"), I(i))) for i in range(3)],
        "via-map-direct": [mk, ("let", "fs", ("map", SYM("mk"), L(I(1), I(2), I(3))))] + [("let", "c%d" % i, B(".", SYM("fs"), I(i))) for i in range(3)],
        "helper-returns-tuple": [mk, ("let", "via", ("func", ["k"], T(("f", ("call", SYM("mk"), [SYM("k")])))))] +
                                [st for i in range(3) for st in (("let", "t%d" % i, ("call", SYM("via"), [I(i + 1)])), ("let", "c%d" % i, B(".", SYM("t%d" % i), SYM("f"))))],
    }
    call = lambda i, a: ("call", SYM("c%d" % i), [I(a)])
    callers = {
        "consecutive-same-argument": [("let", "r%d" % i, call(i, 10)) for i in range(3)],
        "in-one-list": [("let", "r", L(call(0, 10), call(1, 10), call(2, 10)))],
        "in-one-sum": [("let", "r", B("+", call(0, 10), B("*", call(1, 10), call(2, 10))))],
        "different-arguments": [("let", "r0", call(0, 10)), ("let", "r1", call(1, 20)), ("let", "r2", call(0, 10))],
        "interleaved": [("let", "r0", call(0, 10)), ("let", "r1", call(1, 10)), ("let", "r2", call(0, 10)), ("let", "r3", call(1, 10))],
        "same-closure-twice-then-another": [("let", "r0", call(0, 10)), ("let", "r1", call(0, 10)), ("let", "r2", call(1, 10))],
        "through-map": [("let", "r", ("map", ("func", ["f"], ("call", SYM("f"), [I(10)])), L(SYM("c0"), SYM("c1"), SYM("c2"))))],
    }
    for mn, mdefs in makers.items():
        for cn, cdefs in callers.items():
            yield ("s4/closure-factory", mn, cn), mdefs + cdefs
    # statement-kind sequences: expression statements between lets must not disturb bindings
    for k in range(0, 4):
        st = [("let", "a", I(1))] + [("expr", B("+", SYM("a"), I(i))) for i in range(k)] + [("let", "r", B("+", SYM("a"), I(1)))]
        yield ("s4/expr-stmts", k), st


# ---------------------------------------------------------------------------------------------

def leaf_class(idx):
    if idx < len(ATOMS):
        return ATOMS[idx][0]
    return BAD_LEAVES[idx - len(ATOMS)][0]


def leaf_expr(idx):
    if idx < len(ATOMS):
        return ATOMS[idx][1]
    return BAD_LEAVES[idx - len(ATOMS)][1]


NLEAVES = len(ATOMS) + len(BAD_LEAVES)


def reference(stmts, interp_kw=None):
    it = refsem.Interp(**(interp_kw or {}))
    try:
        return it.run(stmts)
    except (ValueError, RecursionError):
        return None


def compare(stmts, resp, interp_kw=None, ref=None):
    """-> (outcome class, mismatch or None)."""
    if ref is None:
        ref = reference(stmts, interp_kw)
    if ref is None:
        return "skipped:ref-unsupported", None
    if "ok" in resp:
        got = refsem.from_wire(resp["ok"])
        if ref[0] != "ok":
            return "MISMATCH", {"expected": "failure class %s" % ref[1], "observed": "success", "value": resp["ok"]}
        if not refsem.same_value(ref[1], got):
            return "MISMATCH", {"expected": wire(ref[1]), "observed": resp["ok"]}
        # TRACE: the value goes to stderr once per evaluation
        return "ok=ok", None
    if "err" in resp:
        cls = refsem.classify_error(resp["err"])
        if cls == "parse":
            return "GENERATOR:parse-reject", {"observed": resp["err"]}
        if ref[0] == "ok":
            return "MISMATCH", {"expected": "success", "observed": "failure class %s" % cls, "err": resp["err"][:300]}
        if ref[1] != cls:
            return "MISMATCH", {"expected": "failure class %s" % ref[1], "observed": "failure class %s" % cls, "err": resp["err"][:300]}
        return "fail=fail:%s" % cls, None
    if "panic" in resp or "abort" in resp or "hang" in resp:
        return "CRASH", {"expected": ref[0] + (":" + ref[1] if ref[0] == "fail" else ""), "observed": {k: resp[k] for k in resp if k in ("panic", "loc", "abort", "hang")}}
    return "machinery", {"observed": resp}


def wire(v):
    k = v[0]
    if k == "n":
        return None
    if k == "b":
        return v[1]
    if k == "s":
        return v[1]
    if k == "i":
        return {"i": str(v[1])}
    if k == "f":
        return {"f": repr(v[1])}
    if k == "l":
        return {"l": [wire(x) for x in v[1]]}
    if k == "t":
        return {"t": [[n, wire(x)] for n, x in v[1]]}
    return "?"


def expand(desc):
    """desc -> list of statements"""
    kind = desc[0]
    if kind == "s1":
        _, op, a, b = desc
        return program(B(op, leaf_expr(a), leaf_expr(b)))
    if kind == "path":
        _, path, leaf, as_stmt = desc
        return program(build_path(path, leaf_expr(leaf)), as_stmt)
    if kind == "pathT":   # innermost is a template with its default slot
        _, path = desc
        name, defaults, fn = TEMPLATES[path[-1]]
        return program(build_path(path[:-1], fn(defaults)))
    if kind == "s4":
        return desc[2]
    raise ValueError(desc)


def describe(desc):
    kind = desc[0]
    if kind == "s1":
        return "s1:%s(%s,%s)" % (desc[1], leaf_class(desc[2]), leaf_class(desc[3]))
    if kind == "path":
        return "path:%s<-%s%s" % ("/".join(TNAMES[i] for i in desc[1]), leaf_class(desc[2]), ":stmt" if desc[3] else "")
    if kind == "pathT":
        return "path:%s" % "/".join(TNAMES[i] for i in desc[1])
    if kind == "s4":
        return ":".join(str(x) for x in desc[1])
    return str(desc)


def work(chunk):
    srv = core.worker_server()
    progs = []
    hist = {}
    nonstrict = bool(chunk) and chunk[0][0] == "ns"
    if nonstrict:
        chunk = [d[1] for d in chunk]
    kw = {"strict": False} if nonstrict else None
    for desc in chunk:
        try:
            st = expand(desc)
            src = pr_prog(st)
        except ValueError:
            hist["skipped:unprintable"] = hist.get("skipped:unprintable", 0) + 1
            continue
        # the reference runs first: programs outside its supported fragment (ranges beyond the
        # generator bound, regex patterns outside the safe set) are not sent to the implementation
        ref = reference(st, kw)
        if ref is None:
            hist["skipped:ref-unsupported"] = hist.get("skipped:ref-unsupported", 0) + 1
            continue
        progs.append((desc, st, src, ref))
    reqs = [{"op": "eval", "src": src, "strict": not nonstrict} for _, st, src, _ in progs]
    resps = iter(srv.req_many(reqs))
    out = []
    nontrivial = 0
    for desc, st, src, ref in progs:
        rs = next(resps)
        oc, mm = compare(st, rs, ref=ref)
        if nonstrict:
            oc = "nonstrict:" + oc
        hist[oc] = hist.get(oc, 0) + 1
        if oc.startswith(("ok=", "fail=", "nonstrict:ok=", "nonstrict:fail=")):
            nontrivial += 1
        if mm is not None and not nonstrict:
            out.append((desc, describe(desc), src, oc, mm))
        elif mm is not None:
            out.append((("ns", desc), "nonstrict:" + describe(desc), src, oc.replace("nonstrict:", ""), mm))
    sample = progs[len(progs) // 2][2] if progs else None
    return {"evals": len(chunk), "nontrivial": nontrivial, "hist": hist, "mism": out[:300], "sample": sample.split("\n")[-1] if sample else None}


def run(ctx):
    thorough = ctx.tier == "thorough"
    nt = len(TEMPLATES)
    ctx.bounds = {"templates": nt, "leaves": NLEAVES, "operators": len(OPS), "path_depth": 3, "strict": True}
    ctx.rule = ("S1 every binary operator x every ordered pair of %d leaves (atoms + failing leaves); S2 every construct template (%d, one slot each; "
                "other operands fixed) x every leaf, as let and as expression statement; S3 every ordered pair and (S3b) every ordered triple of "
                "templates nested along one path; S4 statement sequences with closures, shadowing, curried functions, module/format scopes. "
                "Programs are printed with minimal parentheses and evaluated by eval_string; distinct by construction; non-trivial = both the "
                "implementation and the reference produced an outcome (value or classified failure)." % (NLEAVES, nt))
    mism = []

    def absorb(part):
        ctx.count(part["evals"], part["nontrivial"])
        for k, v in part["hist"].items():
            ctx.outcome(k, v)
        if part["sample"]:
            ctx.sample(part["sample"])
        mism.extend(part["mism"])

    def descs():
        for op in OPS:
            for a in range(NLEAVES):
                for b in range(NLEAVES):
                    yield ("s1", op, a, b)
        for t in range(nt):
            for leaf in range(NLEAVES):
                yield ("path", (t,), leaf, False)
                yield ("path", (t,), leaf, True)
        for t1 in range(nt):
            for t2 in range(nt):
                yield ("pathT", (t1, t2))
                for leaf in range(len(ATOMS), NLEAVES):      # failing leaves two levels down
                    yield ("path", (t1, t2), leaf, False)
        for d, st in gen_s4():
            yield ("s4", d, st)
        for t1 in range(nt):
            for t2 in range(nt):
                for t3 in range(nt):
                    yield ("pathT", (t1, t2, t3))
        if thorough:
            for t1 in range(nt):
                for t2 in range(nt):
                    for leaf in range(len(ATOMS)):
                        yield ("path", (t1, t2), leaf, False)

    for part in core.pmap_gen(work, descs(), chunk=1500):
        absorb(part)
    # the same S1 / S2 programs in non-strict mode (missing fields and indexes yield NULL)
    def ns_descs():
        for op in OPS:
            for a in range(NLEAVES):
                for b in range(NLEAVES):
                    yield ("ns", ("s1", op, a, b))
        for t in range(nt):
            for leaf in range(NLEAVES):
                yield ("ns", ("path", (t,), leaf, False))
        for t1 in range(nt):
            for t2 in range(nt):
                yield ("ns", ("pathT", (t1, t2)))
    for part in core.pmap_gen(work, ns_descs(), chunk=1500):
        absorb(part)

    # signatures: every mismatch is shrunk (sub-expressions replaced by the literal the reference
    # gives them, wrappers hoisted away) and the minimal witness is abstracted (literals -> type
    # class); see DESIGN 3.6.
    mism.sort(key=lambda m: (len(m[2]), m[2]))
    srv = core.Server()
    emitted = {}
    shrunk_cache = {}
    budget = 3000
    try:
        for desc, d, src, oc, mm in mism:
            if oc.startswith("GENERATOR") or oc == "machinery":
                ctx.machinery_errors.append("%s: %s -> %s" % (oc, src.split("\n")[-1], mm))
                continue
            is_ns = desc[0] == "ns"
            stmts = expand(desc[1] if is_ns else desc)
            if is_ns:
                sig = "%s :: %s" % (d, oc)
                if sig not in emitted:
                    emitted[sig] = 1
                    ctx.violation(sig, "non-strict mode: reference %s, implementation %s on `%s`" % (_short(mm.get("expected")), _short(mm.get("observed")), src.split("\n")[-1]),
                                  {"kind": "eval", "src": src, "ast": repr(stmts), "category": oc, "nonstrict": True, "detail": mm})
                continue
            if budget > 0:
                budget -= 1
                wit = shrink(stmts, srv)
            else:
                wit = stmts
            wsrc = pr_prog(wit[prelude_len(wit):])
            cat = mismatch_category(wit, srv)
            if cat is None:
                ctx.machinery_errors.append("shrunk witness no longer fails: %s" % wsrc)
                continue
            sig = "%s :: %s" % (abstract_prog(wit), cat)
            if sig in emitted:
                emitted[sig] += 1
                ctx.violations[sig]["count"] += 1
                continue
            emitted[sig] = 1
            ctx.violation(sig, "reference %s, implementation %s on `%s` (found as `%s`)" % (
                _short(mm.get("expected")), _short(mm.get("observed")), wsrc, src.split("\n")[-1][:120]),
                {"kind": "eval", "src": pr_prog(wit), "ast": repr(wit), "category": cat, "original": src, "detail": mm})
            if len(emitted) > 300:
                break
    finally:
        srv.close()


KINDS = {"int", "float", "str", "bool", "null", "sym", "list", "tuple", "bin", "not", "group", "select", "func", "call", "copy", "module",
         "map", "filter", "reduce", "format", "formatx", "range", "cast", "fail", "trace"}


def is_expr(x):
    return isinstance(x, tuple) and len(x) > 0 and isinstance(x[0], str) and x[0] in KINDS


def positions(x, pos=()):
    """All positions of expression nodes inside a nested tuple/list structure (outermost first)."""
    out = []
    if is_expr(x):
        out.append(pos)
    if isinstance(x, (tuple, list)):
        for i, c in enumerate(x):
            if isinstance(c, (tuple, list)):
                out.extend(positions(c, pos + (i,)))
    return out


def get_at(x, pos):
    for i in pos:
        x = x[i]
    return x


def set_at(x, pos, new):
    if not pos:
        return new
    i = pos[0]
    if isinstance(x, tuple):
        return x[:i] + (set_at(x[i], pos[1:], new),) + x[i + 1:]
    return x[:i] + [set_at(x[i], pos[1:], new)] + x[i + 1:]


def value_to_expr(v):
    k = v[0]
    if k == "i":
        return ("int", v[1])
    if k == "f":
        if v[1] != v[1] or v[1] in (float("inf"), float("-inf")):
            return None
        return ("float", v[1])
    if k == "s":
        return ("str", v[1])
    if k == "b":
        return ("bool", v[1])
    if k == "n":
        return ("null",)
    if k == "l":
        xs = [value_to_expr(x) for x in v[1]]
        return None if any(x is None for x in xs) else ("list", xs)
    if k == "t":
        xs = [(n, value_to_expr(x)) for n, x in v[1]]
        return None if any(x is None for _, x in xs) else ("tuple", xs)
    return None


def outcome_kind_ref(ref):
    return "ok" if ref[0] == "ok" else "fail:" + ref[1]


def mismatch_category(stmts, srv):
    """-> 'ref-kind -> impl-kind' if reference and implementation disagree on stmts, else None."""
    try:
        src = pr_prog(stmts)
    except ValueError:
        return None
    ref = reference(stmts)
    if ref is None:
        return None
    rs = srv.req({"op": "eval", "src": src})
    oc, mm = compare(stmts, rs, ref=ref)
    if mm is None or oc.startswith("GENERATOR") or oc == "machinery":
        return None
    if "ok" in rs:
        ik = "ok"
    elif "err" in rs:
        ik = "fail:" + refsem.classify_error(rs["err"])
    else:
        ik = "crash"
    rk = outcome_kind_ref(ref)
    if rk == "ok" and ik == "ok":
        return "value differs"
    return "%s -> %s" % (rk, ik)


def shrink(stmts, srv, cat_fn=None):
    """Greedy shrinking of the LAST statement's expression (and dropping of earlier non-prelude
    statements): keep a step only if the case still fails in the same way. cat_fn(stmts) gives
    the failure category of a candidate (None = does not fail); default: C01's comparison."""
    if cat_fn is not None:
        mismatch_category = lambda st, _srv: cat_fn(st)      # noqa: E731
    else:
        mismatch_category = globals()["mismatch_category"]
    cat0 = mismatch_category(stmts, srv)
    if cat0 is None:
        return stmts
    cur = list(stmts)
    base = prelude_len(cur)
    # the failure may sit in an earlier statement: drop trailing statements first
    while len(cur) - base > 1 and mismatch_category(cur[:-1], srv) == cat0:
        cur = cur[:-1]
    # drop statements
    i = base
    while i < len(cur) - 1:
        cand = cur[:i] + cur[i + 1:]
        if mismatch_category(cand, srv) == cat0:
            cur = cand
        else:
            i += 1
    changed = True
    rounds = 0
    while changed and rounds < 30:
        changed = False
        rounds += 1
        last = cur[-1]
        for pos in positions(last):
            node = get_at(last, pos)
            if not pos:
                continue
            cands = []
            # (a) replace by the literal value the reference gives the closed sub-expression
            if node[0] not in ("int", "float", "str", "bool", "null"):
                ref = reference(cur[:base] + [("let", "zz", node)])
                if ref is not None and ref[0] == "ok":
                    v = dict(ref[1][1]).get("zz")
                    lit = value_to_expr(v) if v is not None else None
                    if lit is not None and lit != node:
                        cands.append(lit)
            # (b) hoist: replace the parent expression by this node (only directly under the root)
            for c in cands:
                cand = cur[:-1] + [set_at(last, pos, c)]
                if mismatch_category(cand, srv) == cat0:
                    cur = cand
                    changed = True
                    break
            if changed:
                break
        if changed:
            continue
        # hoisting: replace the whole bound expression by one of its sub-expressions
        last = cur[-1]
        root_pos = (2,) if last[0] == "let" else (1,)
        root = get_at(last, root_pos)
        for pos in positions(root):
            if not pos:
                continue
            node = get_at(root, pos)
            cand = cur[:-1] + [set_at(last, root_pos, node)]
            if mismatch_category(cand, srv) == cat0:
                cur = cand
                changed = True
                break
    return cur


def abstract_expr(x):
    if is_expr(x):
        k = x[0]
        if k == "int":
            return ("sym", "INT0" if x[1] == 0 else ("INTMAX" if x[1] == refsem.I64_MAX else ("INTMIN" if x[1] == refsem.I64_MIN else ("NEGINT" if x[1] < 0 else "INT"))))
        if k == "float":
            return ("sym", "FLOAT")
        if k == "str":
            return ("sym", "STR-EMPTY" if x[1] == "" else "STR")
    if isinstance(x, tuple):
        return tuple(abstract_expr(c) if isinstance(c, (tuple, list)) else c for c in x)
    if isinstance(x, list):
        return [abstract_expr(c) if isinstance(c, (tuple, list)) else c for c in x]
    return x


def abstract_prog(stmts):
    st = stmts[prelude_len(stmts):]
    try:
        return " ".join(refsem.pr_stmt(abstract_expr(s)) for s in st)
    except ValueError:
        return pr_prog(st)


def _short(x):
    s = x if isinstance(x, str) else core.json.dumps(x, ensure_ascii=False)
    return s if len(s) <= 60 else s[:57] + "..."


def replay(case):
    import ast
    stmts = ast.literal_eval(case["ast"])
    srv = core.Server()
    try:
        cat = mismatch_category(stmts, srv)
        rs = srv.req({"op": "eval", "src": pr_prog(stmts), "env": "fresh"})
    finally:
        srv.close()
    ref = reference(stmts)
    return cat is None, {"category_now": cat, "reference": None if ref is None else (ref[0], wire(ref[1]) if ref[0] == "ok" else ref[1]), "observed": rs}
