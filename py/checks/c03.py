"""C03 — JSON / YAML / TOML / yamlmulti output decodes back to the value that was output.

E1 + independent decoders: every value tree of the bounded space is converted by the registry's
converter object (the `convert` op) and, for a literal-printable subset, by the real
`convert <fmt> <expr>` expression in a program; the text is read by the decoders of
vf/decoders.py and compared with the value (nesting, list order, key set, strings code point by
code point, booleans/nulls, numbers as exact rationals). Unrepresentable values must be errors.
"""
import itertools
import os

from vf import core, decoders, refsem
from vf.decoders import Invalid
from checks import c01

LEVEL = "exploration"

FORMATS = ["json", "yaml", "toml", "yamlmulti"]


def I(n):
    return {"i": str(n)}


def F(s):
    return {"f": s}


def L(*x):
    return {"l": list(x)}


def T(*kv):
    return {"t": [[k, v] for k, v in kv]}


SCALARS = [None, True, False, I(0), I(1), I(-1), I(2 ** 53), I(2 ** 53 + 1), I(2 ** 63 - 1), I(-2 ** 63),
           F("0.0"), F("-0.0"), F("1.0"), F("0.1"), F("1e20"), F("1e-7"), F("1.7976931348623157e308"), F("5e-324"), F("1.5"),
           F("NaN"), F("inf"), F("-inf")]
REDUCED = [None, True, I(1), F("1.5"), "s"]

STRINGS = ["true", "false", "null", "Null", "~", "1", "-1", "1.0", "1e3", "0x1F", "0o17", "yes", "no", "on", "off", "y", "n", "1:30",
           "2001-01-01", "2001-01-01T00:00:00Z", "a: b", "a:b", "- x", "-x", "#c", "a #c", "!t", "&a", "*a", "|", ">", "%", "@", "`", "[x]", "{x}",
           "a,b", "k=v", "..", ".inf", ".nan", "", " lead", "trail ", " ", "l1\nl2", "x\n", "\nx", "\t", "a\tb", "\r", "a\rb", "\"", "'", "\\",
           "\\n", "\u0001", "\u007f", "\u0085", " ", "﻿", "é", "日本", "😀", "a" * 200, "?", "? x", ": x", "x:", "---", "...", "<<",
           "=", "[", "]", "{", "}", ",", "0.1.2", "+1", "1_000", "inf", "nan", "NaN", "a.b", "a b", "\"q\"", "'q'", "a\"b", "a'b", " ", "\x1b"]
SHORT_ALPHA = ["a", "1", " ", ":", "-", "#", "'", '"', "\n", "\\", "~", ","]


def string_pool(maxlen):
    out = list(STRINGS)
    for ln in range(1, maxlen + 1):
        out.extend("".join(p) for p in itertools.product(SHORT_ALPHA, repeat=ln))
    seen = set()
    res = []
    for s in out:
        if s not in seen:
            seen.add(s)
            res.append(s)
    return res


def in_positions(v, key=None):
    """value v (or string key) in the four positions; every result is a table at top level so
    that toml can take it; the bare top-level form is generated separately."""
    if key is not None:
        yield "tuple-key", T((key, I(1)))
        yield "nested-tuple-key", T(("o", T((key, I(1)), ("z", True))))
        return
    yield "tuple-value", T(("k", v))
    yield "list-item", T(("k", L(v, I(1))))
    yield "nested", T(("k", T(("j", L(T(("i", v)))))))


def skeletons(depth, width, leaves):
    """every tree skeleton of depth <= depth and 1..width children over `leaves`"""
    if depth == 0:
        for x in leaves:
            yield x
        return
    for x in leaves:
        yield x
    subs = list(skeletons(depth - 1, width, leaves[:3]))
    yield L()
    yield T()
    for w in range(1, width + 1):
        for combo in itertools.product(subs, repeat=w):
            yield L(*combo)
            yield T(*[("k%d" % i, c) for i, c in enumerate(combo)])


def chains(maxdepth):
    """every list/tuple alternation chain to depth maxdepth, ending in each reduced scalar and in
    each empty container"""
    for d in range(1, maxdepth + 1):
        for kinds in itertools.product("lt", repeat=d):
            for leaf in REDUCED + [L(), T()]:
                v = leaf
                for k in reversed(kinds):
                    v = L(v) if k == "l" else T(("a", v))
                yield v


def values(thorough):
    """yields (class, value)"""
    for s in SCALARS:
        yield "scalar-top", s
        for pos, v in in_positions(s):
            yield "scalar-" + pos, v
    for s in string_pool(3 if thorough else 2):
        yield "string-top", s
        for pos, v in in_positions(s):
            yield "string-" + pos, v
        for pos, v in in_positions(None, key=s):
            yield "string-" + pos, v
    # thorough: depth 2, width 3 (1.16 M skeletons); depth 3 would be > 10^9
    for v in skeletons(2, 3 if thorough else 2, REDUCED):
        yield "skeleton", v
        yield "skeleton-in-table", T(("root", v))
    for v in chains(5):
        yield "chain", v
    yield "mixed-list", T(("k", L(None, True, I(1), F("1.5"), "s", L(), T())))
    yield "mixed-list-top", L(None, True, I(1), F("1.5"), "s", L(I(1)), T(("a", I(1))))
    for v in (L(T(("a", I(1))), L(I(1), I(2)), "s", None), L(T(("a", I(1))), T(("b", I(2)))), L("a", "b"), L(), L(L()), L(None), L("---"), L("a\n---\nb")):
        yield "multi-doc-list", v
    # documents that end in line breaks, in every position of a stream of two or three (what separates two documents must
    # not become part of the one before)
    for st in ("x\n", "a\n\n", "\n", "\n\n", "l1\nl2\n\n\n"):
        for v in (L(st, I(1)), L(I(1), st), L(st, st), L(st, "plain", st), L(T(("k", st)), T(("k", st)))):
            yield "multi-doc-list-ending-in-line-breaks", v
    # a tuple that carries one field name more than once (map over a tuple can make one: `map(func (k, v) => ["x", v], t)`);
    # selection reads the first field of a name, so that is the tuple's value for the name (a sixth-round remark about the
    # unchanged tree). Handed to the converters directly: a literal of this spelling is an override, not a repetition.
    dup = [T(("x", I(1)), ("x", I(2))), T(("x", I(1)), ("y", I(0)), ("x", "s")), T(("x", I(1)), ("x", I(2)), ("x", I(3))), T(("y", I(0)), ("x", L(I(1))), ("x", T(("z", I(2)))))]
    for d in dup:
        yield "repeated-field-name", d
        yield "repeated-field-name", T(("k", d))
        yield "repeated-field-name", L(d, d)
        yield "repeated-field-name", T(("k", L(d)))
    yield "constraint", T(("k", {"k": 1}))
    yield "constraint-top", {"k": 1}
    yield "constraint-in-list", T(("k", L({"k": 1})))


def expectation(fmt, w):
    """-> 'err' if the format cannot represent the value, else 'ok'"""
    if decoders.has(w, decoders.is_constraint):
        return "err"
    if fmt == "json" and decoders.has(w, decoders.is_nonfinite):
        return "err"
    if fmt == "toml":
        if decoders.has(w, decoders.is_null):
            return "err"
        if not (isinstance(w, dict) and "t" in w):
            return "err"          # a TOML document is a table
        if decoders.has(w, mixed_table_list):
            # TOML 1.0 could express this with inline tables; the serializer in use cannot. The
            # converter may refuse it; what it may not do is write text that decodes differently.
            return "ok-or-err"
    return "ok"


def mixed_table_list(w):
    """lists the serializer in use has no form for: tuples next to other values, or tuples in a
    list that is itself a list item"""
    if isinstance(w, dict) and "l" in w:
        n = sum(1 for x in w["l"] if isinstance(x, dict) and "t" in x)
        if n != 0 and n != len(w["l"]):
            return True
        for x in w["l"]:
            if isinstance(x, dict) and "l" in x and any(isinstance(y, dict) and "t" in y for y in x["l"]):
                return True
    return False


def judge(fmt, w, resp):
    """-> (class, detail or None)"""
    want = expectation(fmt, w)
    if "panic" in resp or "abort" in resp or "hang" in resp:
        return "CRASH", resp
    if "err" in resp:
        if want in ("err", "ok-or-err"):
            return "err=err", None
        return "REJECTS-REPRESENTABLE", resp["err"][:200]
    text = resp["ok"].get("utf8")
    if text is None:
        return "NON-UTF8-OUTPUT", resp["ok"]
    if want == "err":
        return "ACCEPTS-UNREPRESENTABLE", text[:300]
    try:
        if fmt == "json":
            diff = decoders.equiv(w, decoders.json_decode(text))
        elif fmt == "yaml":
            diff = decoders.equiv(w, decoders.yaml_decode(text))
        elif fmt == "toml":
            diff = decoders.equiv(w, decoders.toml_decode(text))
        else:
            docs = decoders.yaml_decode_all(text)
            items = w["l"] if (isinstance(w, dict) and "l" in w) else [w]
            if len(docs) != len(items):
                return "WRONG-DOCUMENT-COUNT", {"expected": len(items), "decoded": len(docs), "text": text[:300]}
            diff = None
            for i, (a, b) in enumerate(zip(items, docs)):
                diff = decoders.equiv(a, b, "$doc%d" % i)
                if diff:
                    break
    except Invalid as e:
        return "INVALID-OUTPUT", {"decoder": str(e)[:200], "text": text[:300]}
    if diff:
        return "DECODES-DIFFERENTLY", {"diff": diff, "text": text[:300]}
    return "ok=ok", None


def work(chunk):
    srv = core.worker_server()
    reqs = [{"op": "convert", "fmt": fmt, "val": w} for (cls, w) in chunk for fmt in FORMATS]
    resps = iter(srv.req_many(reqs))
    hist = {}
    viol = []
    for cls, w in chunk:
        for fmt in FORMATS:
            rs = next(resps)
            oc, detail = judge(fmt, w, rs)
            k = "%s:%s" % (fmt, oc)
            hist[k] = hist.get(k, 0) + 1
            if detail is not None:
                viol.append((fmt, cls, w, oc, detail))
    return {"evals": len(chunk) * len(FORMATS), "hist": hist, "viol": viol[:300], "sample": chunk[len(chunk) // 2][1] if chunk else None}


def wire_to_expr(w):
    """wire value -> mini-AST literal (None if it has no literal form)"""
    v = refsem.from_wire(w) if not decoders.has(w, decoders.is_constraint) else None
    if v is None:
        return None
    if decoders.has(w, lambda x: isinstance(x, dict) and "f" in x and x["f"] in ("-0.0",)):
        return None
    return c01.value_to_expr(v)


def work_source(chunk):
    """the same values through real source text: let v = <literal>; let s = convert <fmt> v;"""
    srv = core.worker_server()
    hist = {}
    viol = []
    reqs = []
    meta = []
    for cls, w in chunk:
        e = wire_to_expr(w)
        if e is None:
            continue
        try:
            lit = refsem.pr(e)
        except ValueError:
            continue
        for fmt in FORMATS:
            reqs.append({"op": "eval", "src": "let v = %s;\nlet s = convert %s v;" % (lit, fmt)})
            meta.append((fmt, cls, w))
    resps = srv.req_many(reqs)
    for (fmt, cls, w), rs in zip(meta, resps):
        if "ok" in rs:
            d = dict((k, v) for k, v in rs["ok"]["t"])
            if d.get("v") != w:
                # lowering changed the value before it reached the converter
                oc, detail = "SOURCE-VALUE-DIFFERS", {"expected": w, "bound": d.get("v")}
            else:
                oc, detail = judge(fmt, w, {"ok": {"utf8": d.get("s")}})
        elif "err" in rs:
            oc, detail = judge(fmt, w, {"err": rs["err"]})
        else:
            oc, detail = "CRASH", rs
        k = "src-%s:%s" % (fmt, oc)
        hist[k] = hist.get(k, 0) + 1
        if detail is not None:
            viol.append((fmt, "src-" + cls, w, oc, detail))
    return {"evals": len(reqs), "hist": hist, "viol": viol[:300], "sample": reqs[len(reqs) // 2]["src"] if reqs else None}


ART_EXT = {"json": "json", "yaml": "yaml", "yamlmulti": "yaml", "toml": "toml"}
OLD_ARTIFACT = ("# artifact of an earlier, longer build\n" * 200).encode()


# Values no format can represent and that have no literal on the wire: functions and modules. Through `convert <fmt>`
# in a program each must be an error (the property: "never silently dropped, defaulted or altered").
UNREPRESENTABLE = [("function-in-tuple", "{a = 1, f = func (x) => x}"), ("function-in-list", "[func (x) => x]"), ("function-alone", "func (x) => x"),
                   ("module-in-tuple", "{m = module {a = 1} => (r) { let r = mod.a; }}"), ("function-nested", "{o = {l = [1, func (x) => x]}}")]


def work_unrepresentable(chunk):
    srv = core.worker_server()
    hist = {}
    viol = []
    for name, expr in chunk:
        for fmt in FORMATS:
            rs = srv.req({"op": "eval", "src": "let v = %s;\nlet s = convert %s v;" % (expr, fmt)})
            if "err" in rs:
                oc = "err=err"
            elif "ok" in rs:
                oc = "SILENTLY-ALTERED"
                viol.append((fmt, name, dict(rs["ok"]["t"]).get("s") if isinstance(rs["ok"], dict) else None))
            else:
                oc = "CRASH"
                viol.append((fmt, name, rs))
            k = "unrepresentable-%s:%s" % (fmt, oc)
            hist[k] = hist.get(k, 0) + 1
    return {"evals": len(chunk) * len(FORMATS), "hist": hist, "viol_unrep": viol, "viol": [], "sample": None}


def artifact_values():
    """the sub-family sent through real builds: every scalar in every position, the pool of
    format-significant strings at top level, as tuple value and as key, the short chains, the mixed
    and multi-document lists and the constraint values"""
    pool = set(STRINGS)
    for c, w in values(False):
        if c.startswith(("scalar", "multi", "mixed", "constraint")):
            yield c, w
        elif c == "string-top" and w in pool:
            yield c, w
        elif c == "string-tuple-value" and w["t"][0][1] in pool:
            yield c, w
        elif c == "string-tuple-key" and w["t"][0][0] in pool:
            yield c, w
        elif c == "chain" and len(core.json.dumps(w)) <= 30:
            yield c, w


def work_artifact(chunk):
    """third observation point: the artifact file the real `ucg build` writes for `out <fmt> v;`,
    in a directory where an earlier and longer artifact of the same name is still present"""
    import shutil
    import tempfile
    hist = {}
    viol = []
    n = 0
    d = tempfile.mkdtemp(prefix="ucgverif-c03-")
    try:
        for cls, w in chunk:
            e = wire_to_expr(w)
            if e is None:
                continue
            try:
                lit = refsem.pr(e)
            except ValueError:
                continue
            for fmt in FORMATS:
                art = os.path.join(d, "v." + ART_EXT[fmt])
                with open(art, "wb") as f:
                    f.write(OLD_ARTIFACT)
                with open(os.path.join(d, "v.ucg"), "w") as f:
                    f.write("let v = %s;\nout %s v;\n" % (lit, fmt))
                rc, out, err = core.run_ucg(["build", "v.ucg"], cwd=d)
                n += 1
                if rc == 0:
                    with open(art, "rb") as f:
                        data = f.read()
                    try:
                        oc, detail = judge(fmt, w, {"ok": {"utf8": data.decode("utf-8")}})
                    except UnicodeDecodeError:
                        oc, detail = "NON-UTF8-OUTPUT", {"bytes": repr(data[:80])}
                elif rc == 1:
                    oc, detail = judge(fmt, w, {"err": err.decode("utf-8", "replace")})
                else:
                    oc, detail = "CRASH", {"rc": rc, "stderr": err.decode("utf-8", "replace")[-300:]}
                k = "artifact-%s:%s" % (fmt, oc)
                hist[k] = hist.get(k, 0) + 1
                if detail is not None:
                    viol.append((fmt, "art-" + cls, w, oc, detail))
    finally:
        shutil.rmtree(d, ignore_errors=True)
    return {"evals": n, "hist": hist, "viol": viol[:300], "sample": None}


def abstract_value(w, top=True):
    if w is None:
        return "NULL"
    if isinstance(w, bool):
        return "bool"
    if isinstance(w, str):
        if w and set(w) <= {"\n"}:
            return "str-only-newlines"
        return "str"
    if "i" in w:
        n = int(w["i"])
        return "int>2^53" if abs(n) > 2 ** 53 else "int"
    if "f" in w:
        return "float-nonfinite" if w["f"] in ("NaN", "inf", "-inf") else "float"
    if "k" in w:
        return "constraint"
    if "l" in w:
        return "[" + ",".join(abstract_value(x, False) for x in w["l"][:3]) + "]"
    if "t" in w:
        return "{" + ",".join(abstract_value(v, False) for _, v in w["t"][:3]) + "}"
    return "?"


def run(ctx):
    thorough = ctx.tier == "thorough"
    ctx.bounds = {"scalars": len(SCALARS), "strings": len(string_pool(3 if thorough else 2)), "skeleton_depth": 2,
                  "skeleton_width": 3 if thorough else 2, "chain_depth": 5, "formats": FORMATS}
    ctx.rule = ("value trees: %d scalars and %d strings (pool of format-significant strings + every string of length <= %d over 12 characters) "
                "each at top level, as tuple value, list item, nested, and (strings) as tuple key; every skeleton of depth <= %d and width <= %d "
                "over 5 leaves; every list/tuple alternation chain to depth 5 ending in each leaf and each empty container; mixed lists; "
                "multi-document lists; constraint values. Each value x {json, yaml, toml, yamlmulti} through the registry converter, and every "
                "literal-printable value again through `convert <fmt> v` in a program; scalars in every position, the format-significant strings as "
                "value and key, short chains, mixed / multi-document lists and constraint values once more through the real `ucg build` of "
                "`out <fmt> v;` into a directory that still holds a longer artifact of the same name (the file is decoded). evaluations = (value, format, route) triples; all "
                "distinct; non-trivial = the converter produced output or an error that was judged." % (
                    len(SCALARS), len(string_pool(3 if thorough else 2)), 3 if thorough else 2, 2, 3 if thorough else 2))
    viol = []

    def absorb(part):
        ctx.count(part["evals"], part["evals"])
        for k, v in part["hist"].items():
            ctx.outcome(k, v)
        if part.get("sample") is not None:
            ctx.sample(part["sample"])
        viol.extend(part["viol"])

    for part in core.pmap_gen(work, values(thorough), chunk=300):
        absorb(part)
    src_vals = ((c, w) for c, w in values(False) if c != "repeated-field-name" and (not c.startswith("string") or len(w if isinstance(w, str) else "") <= 1 or c.endswith("top")))
    for part in core.pmap_gen(work_source, src_vals, chunk=150):
        absorb(part)

    for part in core.pmap(work_unrepresentable, UNREPRESENTABLE, chunk=1):
        absorb(part)
        for fmt, name, got in part["viol_unrep"]:
            kind = name.split("-")[0]
            sig = "%s:SILENTLY-ALTERED:%s-value" % (fmt, kind)
            if sig in ctx.violations:
                ctx.violations[sig]["count"] += 1
                continue
            ctx.violation(sig, "%s of a value holding a %s succeeds and writes %r" % (fmt, kind, got),
                          {"kind": "unrepresentable", "fmt": fmt, "name": name, "output": got})
    art_vals = list(artifact_values())
    for part in core.pmap(work_artifact, art_vals, chunk=12):
        absorb(part)

    srv = core.Server()

    def fails_same(fmt, w, oc0):
        rs = srv.req({"op": "convert", "fmt": fmt, "val": w})
        oc, detail = judge(fmt, w, rs)
        return detail is not None and oc == oc0

    def shrink(fmt, w, oc0):
        """minimal failing sub-value: children first, then shorter strings"""
        changed = True
        while changed:
            changed = False
            cands = []
            if isinstance(w, dict) and "l" in w:
                cands = list(w["l"]) + [{"l": w["l"][:i] + w["l"][i + 1:]} for i in range(len(w["l"]))]
            elif isinstance(w, dict) and "t" in w:
                cands = [v for _, v in w["t"]] + [{"t": w["t"][:i] + w["t"][i + 1:]} for i in range(len(w["t"]))]
                cands += [{"t": [[k, c] for c in ([v["l"][0]] if isinstance(v, dict) and v.get("l") else ([v["t"][0][1]] if isinstance(v, dict) and v.get("t") else []))]}
                          for k, v in w["t"]]
            elif isinstance(w, str) and len(w) > 1:
                cands = [w[:i] + w[i + 1:] for i in range(len(w))]
            for c in cands:
                if fmt == "toml" and not (isinstance(c, dict) and "t" in c):
                    c = {"t": [["k", c]]}
                    if c == w:
                        continue
                if c != w and len(core.json.dumps(c)) < len(core.json.dumps(w)) and fails_same(fmt, c, oc0):
                    w = c
                    changed = True
                    break
        return w

    def size(w):
        return len(core.json.dumps(w))
    viol.sort(key=lambda v: (size(v[2]), core.json.dumps(v[2])))
    seen = {}
    budget = 400
    for fmt, cls, w, oc, detail in viol:
        # signature: format, failure class, abstracted minimal witness
        if cls.startswith("art-"):
            # the artifact route is not shrunk (the shrinker works on the registry converter)
            sig = "artifact:%s:%s:%s" % (fmt, oc, abstract_value(w))
        else:
            if budget > 0 and not cls.startswith("src-") or (budget > 0 and oc != "SOURCE-VALUE-DIFFERS"):
                budget -= 1
                w = shrink(fmt, w, oc) if oc != "SOURCE-VALUE-DIFFERS" else w
            sig = "%s:%s:%s" % (fmt, oc, abstract_value(w))
        if sig in seen:
            ctx.violations[sig]["count"] += 1
            continue
        seen[sig] = 1
        if len(seen) > 120:
            break
        ctx.violation(sig, "%s %s for %s" % (fmt, oc, core.json.dumps(w, ensure_ascii=False)[:160]),
                      {"kind": "convert", "fmt": fmt, "val": w, "class": oc, "route": "source" if cls.startswith("src-") else ("artifact" if cls.startswith("art-") else "registry"), "detail": detail})
    srv.close()


def replay(case):
    if case.get("kind") == "unrepresentable":
        core._WORKER_SERVER = None
        part = work_unrepresentable([x for x in UNREPRESENTABLE if x[0] == case["name"]])
        core.worker_server().close()
        core._WORKER_SERVER = None
        vs = [v for v in part["viol_unrep"] if v[0] == case["fmt"]]
        return not vs, {"violations": vs}
    if case.get("route") == "artifact":
        part = work_artifact([("replay", case["val"])])
        vs = [v for v in part["viol"] if v[0] == case["fmt"]]
        return not vs, {"violations": [(v[3], v[4]) for v in vs]}
    srv = core.Server()
    try:
        rs = srv.req({"op": "convert", "fmt": case["fmt"], "val": case["val"]})
    finally:
        srv.close()
    oc, detail = judge(case["fmt"], case["val"], rs)
    return detail is None, {"outcome": oc, "detail": detail, "response": rs}
