"""C09 — imports resolve against the importing file, run once, and cycles are errors.

E3 against the real binary (the working directory is the point), with a small Python model:
 (a) every digraph on <= 3 files including self-loops, in two import spellings (top-level
     `let l = import ...`, which the static resolver sees, and `(import ...).s`, which it does not)
     and up to 3 directory layouts: a cycle reachable from the entry file must end the build with
     exit 1 and a cycle diagnostic (no signal, no timeout); otherwise exit 0, the artifact equals
     the model's value and every reachable file is evaluated exactly once (one TRACE line each);
 (b) a two-file project with the import / include expression at every syntactic position x 5
     path spellings x 3 working directories: same artifact from everywhere;
 (c) diamonds in which one file is reached under 2-3 spellings: evaluated once.
"""
import itertools
import json
import os
import re
import shutil
import tempfile

from vf import core

LEVEL = "exploration"
TIMEOUT = 30

LAYOUTS = [
    {0: "f0.ucg", 1: "f1.ucg", 2: "f2.ucg", 3: "f3.ucg"},
    {0: "f0.ucg", 1: "sub/f1.ucg", 2: "f2.ucg"},
    {0: "top/f0.ucg", 1: "top/sub/f1.ucg", 2: "other/deep/f2.ucg"},
]


def relpath(frm, to):
    r = os.path.relpath(to, os.path.dirname(frm) or ".")
    return r if r.startswith(".") else "./" + r


def graph_project(n, edges, spelling, layout):
    """-> {path: text}; file i: s = (i+1) + sum of imported s; TRACE marker; entry f0 has out."""
    files = {}
    for i in range(n):
        me = layout[i]
        lines = ["let t = TRACE %d;" % (100 + i)]
        terms = [str(i + 1)]
        for (a, b) in edges:
            if a != i:
                continue
            p = relpath(me, layout[b])
            if spelling == "let":
                lines.append('let l%d = import "%s";' % (b, p))
                terms.append("l%d.s" % b)
            elif spelling == "format-expression":
                # the import is evaluated by the child VM that runs the @{} expressions of a format string
                terms.append('int("@{(import \\"%s\\").s}" %% 0)' % p)
            elif spelling == "function-body":
                lines.append('let g%d = func () => (import "%s").s;' % (b, p))
                terms.append("g%d()" % b)
            elif spelling == "module-body":
                lines.append('let m%d = module {} => (r) {\n    let r = (import "%s").s;\n};' % (b, p))
                terms.append("m%d{}" % b)
            elif spelling == "map-callback":
                terms.append('map(func (i) => (import "%s").s, [0]).0' % p)
            else:
                terms.append('(import "%s").s' % p)
        lines.append("let s = %s;" % " + ".join(terms))
        if i == 0:
            lines.append("out json {s = s};")
        files[me] = "\n".join(lines) + "\n"
    return files


def model_graph(n, edges):
    """-> ("cycle",) | ("ok", value of s at f0, set of reachable files)"""
    adj = {i: [b for a, b in edges if a == i] for i in range(n)}
    state = {}
    reach = set()

    def visit(i):
        if state.get(i) == 1:
            raise RecursionError("cycle")
        if state.get(i) == 2:
            return
        state[i] = 1
        reach.add(i)
        for j in adj[i]:
            visit(j)
        state[i] = 2
    try:
        visit(0)
    except RecursionError:
        return ("cycle",)
    memo = {}

    def val(i):
        if i not in memo:
            memo[i] = (i + 1) + sum(val(j) for j in adj[i])
        return memo[i]
    return ("ok", val(0), reach)


def write_project(d, files):
    for p, t in files.items():
        fp = os.path.join(d, p)
        os.makedirs(os.path.dirname(fp), exist_ok=True)
        with open(fp, "w") as f:
            f.write(t)


def build(d, entry, cwd):
    ep = os.path.join(d, entry)
    art = os.path.splitext(ep)[0] + ".json"
    if os.path.exists(art):
        os.unlink(art)
    rc, out, err = core.run_ucg(["build", os.path.relpath(ep, cwd) if cwd != "/" else ep], cwd=cwd, timeout=TIMEOUT, env=core.clean_env(home=d))
    val = None
    if os.path.exists(art):
        try:
            val = json.loads(open(art).read())
        except ValueError:
            val = "UNDECODABLE"
    return rc, err.decode("utf-8", "replace"), val


def work_graphs(chunk):
    hist = {}
    viol = []
    for n, edges, spelling, li in chunk:
        layout = LAYOUTS[li]
        d = tempfile.mkdtemp(prefix="ucgverif-c09-")
        try:
            write_project(d, graph_project(n, edges, spelling, layout))
            m = model_graph(n, edges)
            rc, err, val = build(d, layout[0], d)
            bad = None
            if rc is None:
                bad = "timeout"
            elif rc not in (0, 1):
                bad = "exit-status-%s" % rc
            elif m[0] == "cycle":
                if rc != 1:
                    bad = "cycle-not-reported"
                elif "cycle" not in err.lower():
                    bad = "cycle-diagnostic-missing"
            else:
                if rc != 0:
                    bad = "acyclic-project-fails"
                elif not isinstance(val, dict) or val.get("s") != m[1]:
                    bad = "wrong-value"
                else:
                    for i in m[2]:
                        cnt = len(re.findall(r"TRACE: %d = %d" % (100 + i, 100 + i), err))
                        if cnt != 1:
                            bad = "file-evaluated-%d-times" % cnt
                            break
            k = "graph%d-%s:%s:%s" % (n, spelling, m[0], "agrees" if bad is None else "VIOLATION")
            hist[k] = hist.get(k, 0) + 1
            if bad:
                cyc = "self-loop" if any(a == b for a, b in edges) and m[0] == "cycle" and n == 1 else m[0]
                viol.append(("graph:%s:%s:%s" % (spelling, cyc, bad), {"n": n, "edges": [list(e) for e in edges], "spelling": spelling, "layout": li},
                             {"rc": rc, "value": val, "stderr": err[-400:]}))
        finally:
            shutil.rmtree(d, ignore_errors=True)
    return {"evals": len(chunk), "hist": hist, "viol": viol}


# positions of an import/include expression E (E evaluates to 41)
POSITIONS = [
    ("top-level-let", "let r = @E@;"),
    ("binary-operand", "let r = 0 + @E@;"),
    ("tuple-field", "let r = {a = @E@}.a;"),
    ("list-element", "let r = [@E@].0;"),
    ("call-argument", "let f = func (x) => x;\nlet r = f(@E@);"),
    ("select-value", "let r = select (str(@E@), 0) => {\"41\" = 41};"),
    ("select-arm", "let r = select (\"a\", 0) => {a = @E@};"),
    ("select-default", "let r = select (\"z\", @E@) => {a = 0};"),
    ("function-body", "let f = func () => @E@;\nlet r = f();"),
    ("nested-function-body", "let f = func () => func () => @E@;\nlet g = f();\nlet r = g();"),
    ("map-callback", "let r = map(func (i) => @E@ + i, [0]).0;"),
    ("filter-callback", "let r = filter(func (i) => @E@ == i, [41]).0;"),
    ("reduce-callback", "let r = reduce(func (acc, i) => @E@ + acc + i, 0, [0]);"),
    ("map-target", "let r = map(func (i) => i, [@E@]).0;"),
    ("filter-target", "let r = filter(func (i) => true, [@E@]).0;"),
    ("reduce-target", "let r = reduce(func (acc, i) => acc + i, 0, [@E@]);"),
    ("map-target-bare", "let r = map(func (k, v) => [k, v], @I@).v;"),
    ("filter-target-bare", "let r = filter(func (k, v) => true, @I@).v;"),
    ("reduce-target-bare", "let r = reduce(func (acc, k, v) => acc + v, 0, @I@);"),
    ("reduce-accumulator", "let r = reduce(func (acc, i) => acc + i, @E@, [0]);"),
    ("fail-message-in-uncalled-function", "let f = func () => fail \"no @\" % (@E@);\nlet r = 41;"),
    ("fail-message-in-unused-default", "let r = select (\"a\", fail \"no @\" % (@E@)) => {a = 41};"),
    ("module-body", "let m = module {} => { let q = @E@; };\nlet r = m{}.q;"),
    ("module-out-expression", "let m = module {} => (@E@) { let q = 1; };\nlet r = m{};"),
    ("module-parameter-default", "let m = module {p = @E@} => { let q = mod.p; };\nlet r = m{}.q;"),
    ("copy-field", "let t = {a = 1};\nlet r = t{b = @E@}.b;"),
    ("format-argument", "let r = int(\"@\" % (@E@));"),
    ("format-single-argument", "let r = int(\"@{item.v}\" % @I@);"),
    ("cast-operand", "let r = int(@E@);"),
    ("range-end", "let r = (41:(@E@)).0;"),
    ("not-operand-comparison", "let r = select (not (@E@ == 0), 0) => {true = 41};"),
    ("trace-operand", "let r = TRACE @E@;"),
    ("let-with-constraint", "let r :: 0 = @E@;"),
    ("assert-statement", "assert {ok = @E@ == 41, desc = \"d\"};\nlet r = 41;"),
    # constraint positions and the expression part of a format string (reported by a seeding agent on the unchanged tree)
    ("constraint-of-let", "let r :: (@E@) = 41;"),
    ("constraint-of-tuple-field", "let r = {a :: (@E@) = 41}.a;"),
    ("constraint-of-function-argument", "let f = func (x :: (@E@)) => x;\nlet r = f(41);"),
    ("constraint-of-module-parameter", "let m = module {p :: (@E@) = 41} => { let q = mod.p; };\nlet r = m{}.q;"),
    ("constraint-statement-arm", "constraint c = (@E@) | 0;\nlet r :: c = 41;"),
    ("format-expression", "let r = int(\"@{@Q@}\" % 0);"),
    ("format-expression-in-function", "let f = func () => \"@{@Q@}\" % 0;\nlet r = int(f());"),
    ("format-expression-in-module", "let m = module {} => { let q = \"@{@Q@}\" % 0; };\nlet r = int(m{}.q);"),
    ("range-start", "let r = ((@E@):41).0;"),
    ("range-step", "let r = (0:(@E@):41).1;"),
    ("in-operand", "let r = select (41 in [@E@], 0) => {true = 41};"),
    ("is-operand", "let r = select (@E@ is \"int\", 0) => {true = 41};"),
    ("convert-operand", "let r = int(convert flags {a = @E@} == \"-a 41 \") + 40;" if False else "let r = select (convert flags {a = @E@}, 0) => {\"-a 41 \" = 41};"),
    ("tuple-field-of-copy-in-function", "let t = {a = 1};\nlet f = func () => t{b = @E@};\nlet r = f().b;"),
    # the end bound of a range constraint (the grammar takes an expression there, not at the start)
    ("constraint-range-end", "let r :: in 0..(@E@) = 41;"),
    ("constraint-statement-range-end", "constraint c = in 0..(@E@);\nlet r :: c = 41;"),
    ("constraint-alternation-range-end", "constraint c = \"x\" | in 0..(@E@);\nlet r :: c = 41;"),
    ("constraint-range-end-of-function-argument", "let f = func (x :: in 0..(@E@)) => x;\nlet r = f(41);"),
    ("out-expression", None),
]
SPELLINGS = ["d/lib.ucg", "./d/lib.ucg", "../p/d/lib.ucg", "./d/../d/lib.ucg", ".//d/lib.ucg"]


def work_positions(chunk):
    hist = {}
    viol = []
    for pname, tpl, kind, spelling in chunk:
        d = tempfile.mkdtemp(prefix="ucgverif-c09-")
        try:
            p = os.path.join(d, "p")
            os.makedirs(os.path.join(p, "d"))
            with open(os.path.join(p, "d", "lib.ucg"), "w") as f:
                f.write("let v = 41;\n")
            with open(os.path.join(p, "d", "lib.txt"), "w") as f:
                f.write('41')
            # import: lib.ucg binds v = 41; include: lib.json is the number 41 / vlib.json the object {"v": 41}
            if kind == "import":
                e, bare = '(import "%s").v' % spelling, 'import "%s"' % spelling
            else:
                # a text file holding 41 (`include json` is given the shape tuple|list by the checker, pinned by
                # the repository's tests, so arithmetic on it does not build; path resolution is the subject here)
                e, bare = 'int(include str "%s")' % spelling.replace("lib.ucg", "lib.txt"), 'include json "%s"' % spelling.replace("lib.ucg", "vlib.json")
            with open(os.path.join(p, "d", "vlib.json"), "w") as f:
                f.write('{"v": 41}\n')
            with open(os.path.join(p, "main.ucg"), "w") as f:
                if tpl is None:
                    f.write("out json {r = %s};\n" % e)          # the import sits in the out statement itself
                else:
                    f.write(tpl.replace("@E@", e).replace("@Q@", e.replace('"', '\\"')).replace("@I@", bare) + "\nout json {r = r};\n")
            results = {}
            for cwd_name, cwd in (("project", p), ("subdir", os.path.join(p, "d")), ("root", "/")):
                rc, err, val = build(d, "p/main.ucg", cwd)
                results[cwd_name] = (rc, val, err)
            bad = None
            okdirs = [c for c, (rc, val, err) in results.items() if rc == 0 and isinstance(val, dict) and val.get("r") == 41]
            if len(okdirs) != 3:
                faildirs = sorted(set(results) - set(okdirs))
                rc, val, err = results[faildirs[0]]
                why = "wrong-value" if rc == 0 else ("crash" if rc not in (0, 1) else ("path-not-found" if "not found" in err.lower() or "No such file" in err else "fails"))
                bad = "%s-from-%s" % (why, "+".join(faildirs) if len(faildirs) < 3 else "everywhere")
            k = "position-%s:%s" % (kind, "agrees" if bad is None else "VIOLATION")
            hist[k] = hist.get(k, 0) + 1
            if bad:
                viol.append(("position:%s:%s:%s" % (kind, pname, bad), {"position": pname, "kind": kind, "spelling": spelling},
                             {c: {"rc": r[0], "value": r[1], "stderr": r[2][-300:]} for c, r in results.items()}))
        finally:
            shutil.rmtree(d, ignore_errors=True)
    return {"evals": len(chunk) * 3, "hist": hist, "viol": viol}


def work_diamonds(chunk):
    hist = {}
    viol = []
    for spell_b, spell_c, spell_a in chunk:
        d = tempfile.mkdtemp(prefix="ucgverif-c09-")
        try:
            files = {
                "a.ucg": 'let t = TRACE 100;\nlet b = import "./b.ucg";\nlet c = import "./x/c.ucg";\n%slet s = b.s + c.s;\nout json {s = s};\n' % (
                    ('let dd = import "%s";\n' % spell_a) if spell_a else ""),
                "b.ucg": 'let t = TRACE 101;\nlet d = import "%s";\nlet s = d.s + 1;\n' % spell_b,
                "x/c.ucg": 'let t = TRACE 102;\nlet d = import "%s";\nlet s = d.s + 2;\n' % spell_c,
                "lib/d.ucg": 'let t = TRACE 103;\nlet s = 10;\n',
            }
            os.makedirs(os.path.join(d, "lib", "y"))
            write_project(d, files)
            bad = None
            for cwd in (d, os.path.join(d, "x"), "/"):
                rc, err, val = build(d, "a.ucg", cwd)
                if rc != 0 or not isinstance(val, dict) or val.get("s") != 23:
                    bad = "diamond-fails" if rc != 0 else "wrong-value"
                    break
                cnt = len(re.findall(r"TRACE: 103 = 103", err))
                if cnt != 1:
                    bad = "shared-file-evaluated-%d-times" % cnt
                    break
            k = "diamond:%s" % ("agrees" if bad is None else "VIOLATION")
            hist[k] = hist.get(k, 0) + 1
            if bad:
                viol.append(("diamond:%s" % bad, {"spellings": [spell_b, spell_c, spell_a]}, {"rc": rc, "value": val, "stderr": err[-400:]}))
        finally:
            shutil.rmtree(d, ignore_errors=True)
    return {"evals": len(chunk) * 3, "hist": hist, "viol": viol}


# (d) decoys: main -> B -> C with B in another directory than main. The path B uses for C also
# names a file when it is read against main's directory (and against the working directory):
# a decoy with another value and another type. Only B's own directory may decide.
DECOY_LAYOUTS = [
    # (main, B, C)
    ("main.ucg", "sub/b.ucg", "sub/c.ucg"),
    ("main.ucg", "sub/b.ucg", "sub/inner/c.ucg"),
    ("main.ucg", "sub/deep/b.ucg", "sub/c.ucg"),
    ("top/main.ucg", "top/sub/b.ucg", "top/sub/c.ucg"),
    ("top/main.ucg", "other/b.ucg", "other/c.ucg"),
    ("top/main.ucg", "b.ucg", "c.ucg"),
]


def decoy_project(layout, spell_main, spell_b, kind, main_reads_decoy=False):
    main, b, c = layout
    rel_bc = relpath(b, c)
    files = {}
    if kind == "import":
        real, decoy = 'let t = TRACE 102;\nlet val = "real";\n', 'let t = TRACE 666;\nlet val = 1;\n'
        use_c = ('let c = import "%s";\nlet n = c.val + "-b";\n' % rel_bc) if spell_b == "let" else ('let n = (import "%s").val + "-b";\n' % rel_bc)
    else:
        # (include str: arithmetic on an included json scalar is a recorded C07 finding of its own)
        real, decoy = "real", "decoy"
        use_c = 'let n = (include str "%s") + "-b";\n' % rel_bc
    files[c] = real
    files[b] = "let t = TRACE 101;\n" + use_c
    rel_mb = relpath(main, b)
    use_b = ('let b = import "%s";\nlet n = b.n;\n' % rel_mb) if spell_main == "let" else ('let n = (import "%s").n;\n' % rel_mb)
    own = ""
    if main_reads_decoy and not os.path.normpath(os.path.join(os.path.dirname(main), rel_bc)).startswith(".."):
        # main reads, under the very spelling B uses for C, the file that spelling names from main's directory
        own = ('let own = import "%s";\nlet ownv = own.val;\n' % rel_bc) if kind == "import" else ('let ownv = include str "%s";\n' % rel_bc)
    files[main] = "let t = TRACE 100;\n" + own + use_b + "out json {n = n};\n"
    # the decoys: the same relative path read against main's directory, the project root and a sub-directory used as cwd
    for base in (os.path.dirname(main), "", "cwd"):
        dp = os.path.normpath(os.path.join(base, rel_bc))
        if not dp.startswith("..") and dp not in files:
            files[dp] = decoy
    return files


def work_decoys(chunk):
    hist = {}
    viol = []
    for item in chunk:
        li, spell_main, spell_b, kind = item[:4]
        reads = len(item) > 4 and item[4]
        layout = DECOY_LAYOUTS[li]
        d = tempfile.mkdtemp(prefix="ucgverif-c09-")
        try:
            files = decoy_project(layout, spell_main, spell_b, kind, reads)
            write_project(d, files)
            os.makedirs(os.path.join(d, "cwd"), exist_ok=True)
            bad = None
            for cwd in (d, os.path.join(d, "cwd"), "/"):
                rc, err, val = build(d, layout[0], cwd)
                if rc is None or rc not in (0, 1):
                    bad = "exit-status-%s" % rc
                elif rc != 0:
                    bad = "valid-project-fails"
                elif not isinstance(val, dict) or val.get("n") != "real-b":
                    bad = "wrong-value"
                elif "TRACE: 666" in err and not reads:
                    bad = "decoy-evaluated"
                if bad:
                    break
            k = "decoy-%s:%s" % (kind, "agrees" if bad is None else "VIOLATION")
            hist[k] = hist.get(k, 0) + 1
            if bad:
                viol.append(("decoy:%s:%s:%s:%s%s" % (kind, "main-" + spell_main, "b-" + spell_b, bad, ":main-reads-decoy-too" if reads else ""),
                             {"decoy_layout": li, "spell_main": spell_main, "spell_b": spell_b, "kind": kind, "main_reads_decoy": reads},
                             {"rc": rc, "value": val, "stderr": err[-400:], "files": sorted(files)}))
        finally:
            shutil.rmtree(d, ignore_errors=True)
    return {"evals": len(chunk) * 3, "hist": hist, "viol": viol}


# (f) a data directory that happens to be called std: `import "std/..."` names the embedded library, an include of
# "std/x" is an ordinary relative path and resolves against the including file like any other
def work_std_named_dir(chunk):
    hist = {}
    viol = []
    for typ in chunk:
        d = tempfile.mkdtemp(prefix="ucgverif-c09-")
        try:
            files = {"p/std/data.txt": "41", "p/std/data.json": '{"v": 41}', "p/main.ucg": "", "decoy/std/data.txt": "666", "decoy/std/data.json": '{"v": 666}',
                     # a data file that carries the name of an embedded library: only an import of that name means the library
                     "p/std/lists.ucg": "41", "decoy/std/lists.ucg": "666"}
            e = {"str": 'int(include str "std/data.txt")', "json": '(include json "std/data.json").v', "b64": 'select (include b64 "std/data.txt", 0) => {"NDE=" = 41}',
                 "str-named-like-an-embedded-library": 'int(include str "std/lists.ucg")'}[typ]
            files["p/main.ucg"] = "let r = %s;\nout json {r = r};\n" % e
            write_project(d, files)
            bad = None
            for cwd in (os.path.join(d, "p"), os.path.join(d, "decoy"), "/"):
                rc, err, val = build(d, "p/main.ucg", cwd)
                if rc != 0:
                    bad = "fails-from-%s" % ("project" if cwd.endswith("/p") else ("decoy-directory" if cwd.endswith("decoy") else "root"))
                elif not isinstance(val, dict) or val.get("r") != 41:
                    bad = "wrong-file-read-from-%s" % ("decoy-directory" if cwd.endswith("decoy") else "elsewhere")
                if bad:
                    break
            k = "include-from-std-named-directory:%s" % ("agrees" if bad is None else "VIOLATION")
            hist[k] = hist.get(k, 0) + 1
            if bad:
                viol.append(("std-named-directory:include-%s:%s" % (typ, bad), {"std_dir_include": typ}, {"rc": rc, "value": val, "stderr": err[-300:]}))
        finally:
            shutil.rmtree(d, ignore_errors=True)
    return {"evals": len(chunk) * 3, "hist": hist, "viol": viol}


# (d2) imports whose path begins with the letters s-t-d: only `std/<a file the compiler embeds>` is the standard library;
# a sibling file or directory whose name merely starts with std, and a file in a std directory that the compiler does
# not embed, are ordinary relative imports
STD_PREFIX_CASES = {
    "directory-name-starts-with-std": ("stdlib/x.ucg", "stdlib/x.ucg"),
    "file-name-starts-with-std": ("std_defaults.ucg", "std_defaults.ucg"),
    "file-named-std-dot-ucg": ("std.ucg", "std.ucg"),
    "directory-named-stdx": ("stdx/lists.ucg", "stdx/lists.ucg"),
    "file-in-std-directory-not-embedded": ("std/mine.ucg", "std/mine.ucg"),
    "file-in-std-sub-directory-not-embedded": ("std/more/mine.ucg", "std/more/mine.ucg"),
    # a project file that carries an embedded library's name, spelled so that it is not `std/<name>`: it is the project's file
    "embedded-name-through-dot-slash": ("./std/lists.ucg", "std/lists.ucg"),
    "embedded-name-through-parent-directory": ("../p/std/strings.ucg", "std/strings.ucg"),
    "embedded-name-through-sub-directory": ("std/more/../lists.ucg", "std/lists.ucg"),
}


def work_std_prefix(chunk):
    hist = {}
    viol = []
    evals = 0
    for name, spelling in chunk:
        path, rel = STD_PREFIX_CASES[name]
        d = tempfile.mkdtemp(prefix="ucgverif-c09-")
        try:
            e = {"let": 'let l = import "%s";\nlet r = l.v;\n' % path, "inline": 'let r = (import "%s").v;\n' % path,
                 "in-function": 'let f = func () => (import "%s").v;\nlet r = f();\n' % path}[spelling]
            files = {"p/" + rel: "let v = 41;\n", "decoy/" + rel: "let v = 666;\n", "p/main.ucg": e + "out json {r = r};\n"}
            write_project(d, files)
            bad = None
            for cwd in (os.path.join(d, "p"), os.path.join(d, "decoy"), "/"):
                rc, err, val = build(d, "p/main.ucg", cwd)
                evals += 1
                where = "project" if cwd.endswith("/p") else ("decoy-directory" if cwd.endswith("decoy") else "root")
                if rc != 0:
                    bad = "fails-from-%s" % where
                elif not isinstance(val, dict) or val.get("r") != 41:
                    bad = "wrong-file-read-from-%s" % where
                if bad:
                    break
            k = "std-prefix:%s" % ("agrees" if bad is None else "VIOLATION")
            hist[k] = hist.get(k, 0) + 1
            if bad:
                viol.append(("std-prefix:%s:%s" % (name, bad), {"std_prefix": name, "spelling": spelling}, {"rc": rc, "value": val, "stderr": err[-300:]}))
        finally:
            shutil.rmtree(d, ignore_errors=True)
    return {"evals": evals, "hist": hist, "viol": viol}


# (e) mod.pkg(): a module's handle on the file that defines it is an import of that file. Used while
# that file is still being evaluated it closes a cycle, which must be reported like any other.
PKG_MODULE = "let secret = 7;\nlet m = module {} => (r) {\n    let r = mod.pkg().secret;\n};\n"
PKG_CASES = {
    "defining-file-instantiates-at-top-level": ({"main.ucg": PKG_MODULE + "let v = m{};\nout json {v = v};\n"}, "cycle"),
    "imported-file-instantiates-at-its-top-level": ({"lib/l.ucg": PKG_MODULE + "let v = m{};\n", "main.ucg": 'let l = import "./lib/l.ucg";\nout json {v = l.v};\n'}, "cycle"),
    "imported-file-instantiates-at-its-top-level-inline": ({"lib/l.ucg": PKG_MODULE + "let v = m{};\n", "main.ucg": 'out json {v = (import "./lib/l.ucg").v};\n'}, "cycle"),
    "importer-instantiates": ({"lib/l.ucg": PKG_MODULE, "main.ucg": 'let l = import "./lib/l.ucg";\nlet mm = l.m;\nout json {v = mm{}};\n'}, 7),
    "importer-instantiates-twice": ({"lib/l.ucg": PKG_MODULE, "main.ucg": 'let l = import "./lib/l.ucg";\nlet mm = l.m;\nlet a = mm{};\nout json {v = mm{} + a - a};\n'}, 7),
    "importer-of-importer-instantiates": ({"lib/l.ucg": PKG_MODULE, "mid.ucg": 'let l = import "./lib/l.ucg";\nlet mm = l.m;\n',
                                           "main.ucg": 'let k = import "./mid.ucg";\nlet mm = k.mm;\nout json {v = mm{}};\n'}, 7),
    "defining-file-instantiates-inside-uncalled-function": ({"main.ucg": PKG_MODULE + "let f = func () => m{};\nout json {v = 7};\n"}, 7),
}


def work_pkg(chunk):
    hist = {}
    viol = []
    for name in chunk:
        files, want = PKG_CASES[name]
        d = tempfile.mkdtemp(prefix="ucgverif-c09-")
        try:
            write_project(d, files)
            os.makedirs(os.path.join(d, "lib"), exist_ok=True)
            bad = None
            for cwd in (d, os.path.join(d, "lib"), "/"):
                rc, err, val = build(d, "main.ucg", cwd)
                if rc is None:
                    bad = "timeout"
                elif rc not in (0, 1):
                    bad = "exit-status-%s" % rc
                elif want == "cycle":
                    if rc != 1:
                        bad = "cycle-not-reported"
                    elif "cycle" not in err.lower():
                        bad = "cycle-diagnostic-missing"
                elif rc != 0:
                    bad = "valid-project-fails"
                elif not isinstance(val, dict) or val.get("v") != want:
                    bad = "wrong-value"
                if bad:
                    break
            k = "pkg:%s" % ("agrees" if bad is None else "VIOLATION")
            hist[k] = hist.get(k, 0) + 1
            if bad:
                viol.append(("pkg:%s:%s" % (name, bad), {"pkg_case": name}, {"rc": rc, "value": val, "stderr": err[-400:]}))
        finally:
            shutil.rmtree(d, ignore_errors=True)
    return {"evals": len(chunk) * 3, "hist": hist, "viol": viol}


def all_graphs(n):
    pairs = [(a, b) for a in range(n) for b in range(n)]
    for mask in range(1 << len(pairs)):
        yield tuple(p for i, p in enumerate(pairs) if mask >> i & 1)


def run(ctx):
    thorough = ctx.tier == "thorough"
    graphs = []
    for n in (1, 2, 3):
        for edges in all_graphs(n):
            for spelling in ("let", "inline"):
                layouts = [0] if (n == 3 and not thorough) else ([0, 1] if not thorough else [0, 1, 2])
                for li in layouts:
                    graphs.append((n, edges, spelling, li))
    # the places where a child VM evaluates the import (it must know what is being imported already): graphs on 1-2 files
    for n in (1, 2):
        for edges in all_graphs(n):
            for spelling in ("format-expression", "function-body", "module-body", "map-callback"):
                for li in ([0, 1] if n == 2 else [0]):
                    graphs.append((n, edges, spelling, li))
    if thorough:
        # all digraphs on 4 files without self-loops, flat layout, inline spelling
        pairs = [(a, b) for a in range(4) for b in range(4) if a != b]
        for mask in range(1 << len(pairs)):
            edges = tuple(p for i, p in enumerate(pairs) if mask >> i & 1)
            graphs.append((4, edges, "inline", 0))
    positions = [(pn, tpl, kind, sp) for pn, tpl in POSITIONS for kind in ("import", "include") for sp in (SPELLINGS if thorough else SPELLINGS[1:4])]
    bsp = ["./lib/d.ucg", "lib/d.ucg", "./lib/./d.ucg", "./lib/y/../d.ucg"]
    csp = ["../lib/d.ucg", "../lib/y/../d.ucg", ".././lib/d.ucg"]
    asp = [None, "./lib/d.ucg", "lib/d.ucg", "./x/../lib/d.ucg"]
    diamonds = [(b, c, a) for b in bsp for c in csp for a in asp]
    ctx.bounds = {"graph_files": 4 if thorough else 3, "graphs": len(graphs), "positions": len(POSITIONS), "spellings": len(SPELLINGS), "working_dirs": 3,
                  "diamonds": len(diamonds)}
    ctx.rule = ("every digraph on 1..3 files incl. self-loops (thorough: + all 4 096 digraphs on 4 files without self-loops) x {let, inline} import "
                "spelling x directory layouts; %d syntactic positions x {import, include json} x path spellings, each built from the project "
                "directory, a sub-directory and /; %d diamonds reaching one file under 2-3 spellings, from 3 working directories; 6 layouts "
                "main -> B -> C (B outside main's directory) x {let, inline} x {let, inline} x {import, include} in which the path B uses for C "
                "also names a decoy of another type against main's directory, the project root and the working directory. evaluations "
                "= builds; all cases distinct; non-trivial = the graph has an edge / the case contains an import." % (len(POSITIONS), len(diamonds)))
    viol = []

    def absorb(part):
        ctx.count(part["evals"], part["evals"])
        for k, v in part["hist"].items():
            ctx.outcome(k, v)
        viol.extend(part["viol"])
    for part in core.pmap(work_graphs, graphs, chunk=10):
        absorb(part)
    for part in core.pmap(work_positions, positions, chunk=4):
        absorb(part)
    for part in core.pmap(work_diamonds, diamonds, chunk=3):
        absorb(part)
    decoys = [(li, sm, sb, kind) for li in range(len(DECOY_LAYOUTS)) for sm in ("let", "inline") for sb in ("let", "inline") for kind in ("import", "include")
              if not (kind == "include" and sb == "inline")]
    decoys += [x + (True,) for x in decoys if DECOY_LAYOUTS[x[0]][0] == "main.ucg" or True]
    for part in core.pmap(work_decoys, decoys, chunk=2):
        absorb(part)
    for part in core.pmap(work_pkg, list(PKG_CASES), chunk=1):
        absorb(part)
    for part in core.pmap(work_std_named_dir, ["str", "json", "b64", "str-named-like-an-embedded-library"], chunk=1):
        absorb(part)
    for part in core.pmap(work_std_prefix, [(n, sp) for n in STD_PREFIX_CASES for sp in ("let", "inline", "in-function")], chunk=2):
        absorb(part)
    ctx.sample({"graph": {"n": 2, "edges": [[0, 1], [1, 0]], "spelling": "inline"}, "model": "exit 1, diagnostic mentions the cycle"})
    ctx.sample({"position": "map-callback", "source": 'let r = map(func (i) => (import "./d/lib.ucg").v + i, [0]).0;', "cwds": ["p", "p/d", "/"]})
    seen = {}
    for sig, case, det in sorted(viol, key=lambda v: len(str(v[1]))):
        # one signature per (position, failure); spellings and layouts of the same position collapse
        if sig in seen:
            ctx.violations[sig]["count"] += 1
            continue
        seen[sig] = 1
        ctx.violation(sig, "%s for %s" % (sig, core.json.dumps(case)[:200]), {"kind": "project", "case": case, "detail": det})


def replay(case):
    c = case["case"]
    if "edges" in c:
        part = work_graphs([(c["n"], tuple(tuple(e) for e in c["edges"]), c["spelling"], c["layout"])])
    elif "position" in c:
        tpl = dict(POSITIONS)[c["position"]]
        part = work_positions([(c["position"], tpl, c["kind"], c["spelling"])])
    elif "std_dir_include" in c:
        part = work_std_named_dir([c["std_dir_include"]])
    elif "std_prefix" in c:
        part = work_std_prefix([(c["std_prefix"], c["spelling"])])
    elif "pkg_case" in c:
        part = work_pkg([c["pkg_case"]])
    elif "decoy_layout" in c:
        part = work_decoys([(c["decoy_layout"], c["spell_main"], c["spell_b"], c["kind"], c.get("main_reads_decoy", False))])
    else:
        part = work_diamonds([tuple(c["spellings"])])
    return not part["viol"], {"violations": part["viol"]}
