"""C18 — `env` exposes the process environment, nothing else, and cannot be shadowed.

E3 against the real binary under an explicit environment (the equivalent of `env -i`):
every subset of <= 3 variables of a pool of 6 names, every value of length <= 3 over the
shell-significant alphabet of C08 on one variable, a 20-variable environment, always with a
planted secret in an unrelated variable; programs reading set and unset names (bare and quoted
selector), binding env, using env as a field / selector / module parameter; strict and
--no-strict.
"""
import itertools
import json
import os
import shutil
import tempfile

from vf import core

LEVEL = "exploration"

NAMES = ["A", "a_b", "X1", "_U", "PATH", "LONG_NAME_123"]
ALPHA = ["'", '"', "\\", "$", "`", " ", "\n", "*", "a"]
FIXED = ["v", "", "two words", "é😀", "a=b", "$HOME", "x" * 300]
NONCE = "hunter2-N0NCE-7731"


def run(ctx_or_args):
    return _run(ctx_or_args)


def build(d, src, envvars, strict=True, extra=None):
    with open(os.path.join(d, "p.ucg"), "w") as f:
        f.write(src)
    for fn in ("lib.ucg", "lib2.ucg"):
        if os.path.exists(os.path.join(d, fn)):
            os.unlink(os.path.join(d, fn))
    for fn, text in (extra or {}).items():
        with open(os.path.join(d, fn), "w") as f:
            f.write(text)
    for n in os.listdir(d):
        if n.endswith(".json"):
            os.unlink(os.path.join(d, n))
    env = {"HOME": d}
    env.update(envvars)
    # a value that is not UTF-8 is written as "@BYTES:<hex>" in the case (cases are kept as JSON)
    env = {k: (bytes.fromhex(v[7:]) if v.startswith("@BYTES:") else v) for k, v in env.items()}
    args = (["--no-strict"] if not strict else []) + ["build", "p.ucg"]
    rc, out, err = core.run_ucg(args, cwd=d, env=env)
    art = None
    p = os.path.join(d, "p.json")
    if os.path.exists(p):
        with open(p, "rb") as f:
            raw = f.read()
        try:
            art = json.loads(raw.decode("utf-8"))
        except ValueError:
            art = {"undecodable": raw[:200].decode("utf-8", "replace")}
    return rc, err.decode("utf-8", "replace"), art


# every place a program can read env from: (name, main file with @E@ or None, {other file: text with @E@})
PLACES = [
    ("function-body", "let f = func (n) => @E@;\nout json {v = f(1)};\n", {}),
    ("module-body", "let m = module {} => { let r = @E@; };\nout json {v = m{}.r};\n", {}),
    ("map-callback", "out json {v = map(func (i) => @E@, [0]).0};\n", {}),
    ("reduce-callback", "out json {v = reduce(func (acc, i) => @E@, NULL, [0])};\n", {}),
    ("filter-callback", "out json {v = filter(func (i) => @E@ == @E@, [@E@]).0};\n", {}),
    ("map-callback-over-tuple", "out json {v = map(func (k, x) => [k, @E@], {q = 0}).q};\n", {}),
    ("filter-callback-over-tuple", "let t = filter(func (k, x) => @E@ == @E@, {q = 0});\nout json {v = @E@};\n", {}),
    ("reduce-callback-over-tuple", "out json {v = reduce(func (acc, k, x) => @E@, NULL, {q = 0})};\n", {}),
    ("map-callback-over-string", "out json {v = reduce(func (acc, c) => @E@, NULL, \"ab\")};\n", {}),
    ("nested-function-in-callback", "let g = func (n) => @E@;\nout json {v = map(func (k, x) => [k, g(x)], {q = 0}).q};\n", {}),
    ("module-instantiated-in-callback", "let m = module {} => (r) { let r = @E@; };\nout json {v = map(func (i) => m{}, [0]).0};\n", {}),
    ("tuple-field", "let t = {k = @E@};\nout json {v = t.k};\n", {}),
    ("select-arm", "out json {v = select (\"a\") => {a = @E@}};\n", {}),
    ("format-argument", "out json {v = \"@\" % (@E@)};\n", {}),
    ("imported-file", "let l = import \"./lib.ucg\";\nout json {v = l.r};\n", {"lib.ucg": "let r = @E@;\n"}),
    ("imported-file-inline", "out json {v = (import \"./lib.ucg\").r};\n", {"lib.ucg": "let r = @E@;\n"}),
    ("function-in-imported-file", "let l = import \"./lib.ucg\";\nout json {v = l.f(1)};\n", {"lib.ucg": "let f = func (n) => @E@;\n"}),
    ("module-in-imported-file", "let l = import \"./lib.ucg\";\nlet m = l.m;\nout json {v = m{}.r};\n", {"lib.ucg": "let m = module {} => { let r = @E@; };\n"}),
    ("imported-by-imported-file", "let l = import \"./lib2.ucg\";\nout json {v = l.r};\n",
     {"lib2.ucg": "let k = import \"./lib.ucg\";\nlet r = k.r;\n", "lib.ucg": "let r = @E@;\n"}),
]


def sel(name, quoted):
    return 'env."%s"' % name if quoted else "env.%s" % name


def work(chunk):
    """chunk: list of cases (kind, envvars dict, params)"""
    hist = {}
    viol = []
    d = tempfile.mkdtemp(prefix="ucgverif-c18-")
    try:
        for kind, envvars, prm in chunk:
            envv = dict(envvars)
            envv["SECRET_TOKEN_%d" % (len(envv) + 3)] = NONCE
            bad = None
            if kind == "read-set":
                name, quoted, strict = prm
                rc, err, art = build(d, "out json {v = %s};\n" % sel(name, quoted), envv, strict)
                if rc != 0 or not isinstance(art, dict) or art.get("v") != envv[name]:
                    bad = ("read-set:%s" % ("value-altered" if rc == 0 else "fails"), {"expected": envv[name], "artifact": art, "rc": rc, "stderr": err[-300:]})
            elif kind == "read-unset":
                name, quoted, strict = prm
                rc, err, art = build(d, "out json {v = %s};\n" % sel(name, quoted), envv, strict)
                if strict:
                    if rc != 1:
                        bad = ("read-unset-strict:exit-%s" % rc, {"artifact": art, "stderr": err[-300:]})
                    elif name not in err:
                        bad = ("read-unset-strict:diagnostic-does-not-name-variable", {"stderr": err[-400:]})
                    else:
                        leaked = [k for k, v in envv.items() if k != "HOME" and len(v) >= 3 and v in err]
                        if leaked:
                            bad = ("read-unset-strict:diagnostic-discloses-other-variables", {"leaked": leaked, "stderr": err[-600:]})
                else:
                    if rc != 0 or not isinstance(art, dict) or "v" not in art or art["v"] is not None:
                        bad = ("read-unset-nostrict:not-null", {"rc": rc, "artifact": art, "stderr": err[-300:]})
            elif kind == "read-from":
                place, name, quoted, strict = prm
                _, main, extra = [p for p in PLACES if p[0] == place][0]
                e = sel(name, quoted)
                rc, err, art = build(d, main.replace("@E@", e), envv, strict, {fn: t.replace("@E@", e) for fn, t in extra.items()})
                want = envv.get(name)
                if place == "format-argument" and want is not None:
                    want = want
                if want is not None:
                    if rc != 0 or not isinstance(art, dict) or art.get("v") != want:
                        bad = ("read-from:%s:set:%s" % (place, "value-altered" if rc == 0 else "fails"), {"expected": want, "artifact": art, "rc": rc, "stderr": err[-300:]})
                elif strict:
                    if rc != 1:
                        bad = ("read-from:%s:unset-strict:exit-%s" % (place, rc), {"artifact": art, "stderr": err[-300:]})
                    elif name not in err:
                        bad = ("read-from:%s:unset-strict:diagnostic-does-not-name-variable" % place, {"stderr": err[-400:]})
                    elif NONCE in err:
                        bad = ("read-from:%s:unset-strict:diagnostic-discloses-other-variables" % place, {"stderr": err[-600:]})
                else:
                    null_v = "NULL" if place == "format-argument" else None
                    if rc != 0 or not isinstance(art, dict) or "v" not in art or art["v"] != null_v:
                        bad = ("read-from:%s:unset-nostrict:not-null" % place, {"rc": rc, "artifact": art, "stderr": err[-300:]})
            elif kind == "read-unset-small":
                # no nonce variable is added here: the environment is exactly what the case says plus one two-letter secret
                name, quoted, strict = prm
                envv = dict(envvars)
                envv["S"] = "n0nce9"
                rc, err, art = build(d, "out json {v = %s};\n" % sel(name, quoted), envv, strict)
                if rc != 1:
                    bad = ("read-unset-small:exit-%s" % rc, {"artifact": art, "stderr": err[-300:]})
                elif name not in err:
                    bad = ("read-unset-small:diagnostic-does-not-name-variable", {"stderr": err[-400:]})
                else:
                    leaked = [k for k, v in envv.items() if k != "HOME" and len(v) >= 3 and v in err]
                    if leaked:
                        bad = ("read-unset-small:diagnostic-discloses-other-variables", {"leaked": leaked, "stderr": err[-400:]})
            elif kind == "read-undecodable":
                # the variable itself has no string value, so what reading it gives is not laid down; it must not bring the compiler down
                (strict,) = prm
                rc, err, art = build(d, "out json {v = env.BADVAR};\n", envv, strict)
                if rc not in (0, 1) or "panicked" in err:
                    bad = ("read-undecodable:crash", {"rc": rc, "stderr": err[-300:]})
            elif kind == "read-recursive":
                # `ucg build -r .`: files directly in the directory, one and two levels down all read the same environment
                # in the same mode. A directory of its own: the walk builds whatever lies around (DESIGN 0.3 item 26).
                name, quoted, strict = prm
                import shutil as _sh
                rd = os.path.join(d, "recursive-walk")
                _sh.rmtree(rd, ignore_errors=True)
                os.makedirs(os.path.join(rd, "sub", "deeper"))
                rels = ["top.ucg", os.path.join("sub", "mid.ucg"), os.path.join("sub", "deeper", "low.ucg")]
                for rel in rels:
                    with open(os.path.join(rd, rel), "w") as f:
                        f.write("out json {v = %s};\n" % sel(name, quoted))
                env = {"HOME": d}
                env.update(envv)
                rc, out, err = core.run_ucg((["--no-strict"] if not strict else []) + ["build", "-r", "."], cwd=rd, env=env)
                err = err.decode("utf-8", "replace")
                arts = []
                for rel in rels:
                    ap = os.path.join(rd, rel[:-4] + ".json")
                    arts.append(json.load(open(ap)) if os.path.exists(ap) else None)
                want = envv.get(name)
                for rel, a in zip(rels, arts):
                    depth = rel.count(os.sep)
                    if want is not None:
                        if rc != 0 or not isinstance(a, dict) or a.get("v") != want:
                            bad = ("read-recursive:set:depth-%d:%s" % (depth, "value-altered" if rc == 0 else "fails"), {"rc": rc, "artifact": a, "stderr": err[-300:]})
                    elif strict:
                        if rc == 0 or a is not None:
                            bad = ("read-recursive:unset-strict:depth-%d:%s" % (depth, "artifact-written" if a is not None else "exit-0"), {"rc": rc, "artifact": a, "stderr": err[-300:]})
                        elif name not in err:
                            bad = ("read-recursive:unset-strict:diagnostic-does-not-name-variable", {"stderr": err[-300:]})
                        elif NONCE in err:
                            bad = ("read-recursive:unset-strict:diagnostic-discloses-other-variables", {"stderr": err[-300:]})
                    else:
                        if rc != 0 or not isinstance(a, dict) or "v" not in a or a["v"] is not None:
                            bad = ("read-recursive:unset-nostrict:depth-%d:not-null" % depth, {"rc": rc, "artifact": a, "stderr": err[-300:]})
                    if bad:
                        break
                _sh.rmtree(rd, ignore_errors=True)
            elif kind == "read-two":
                n1, q1, n2, q2, strict = prm
                rc, err, art = build(d, "let a = %s;\nlet b = %s;\nout json {a = a, b = b};\n" % (sel(n1, q1), sel(n2, q2)), envv, strict)
                w1, w2 = envv.get(n1), envv.get(n2)
                if strict and (w1 is None or w2 is None):
                    missing = n1 if w1 is None else n2
                    if rc != 1 or missing not in err:
                        bad = ("read-two:unset-strict:%s" % ("exit-%s" % rc if rc != 1 else "diagnostic-does-not-name-variable"), {"artifact": art, "stderr": err[-300:]})
                elif rc != 0 or not isinstance(art, dict) or art.get("a") != w1 or art.get("b") != w2:
                    bad = ("read-two:%s-then-%s:%s" % ("quoted" if q1 else "bare", "quoted" if q2 else "bare", "fails" if rc != 0 else "value-altered"),
                           {"expected": [w1, w2], "artifact": art, "rc": rc, "stderr": err[-300:]})
            elif kind == "program":
                name, src, expect, strict = prm
                rc, err, art = build(d, src, envv, strict)
                if expect == "error":
                    if rc != 1:
                        bad = ("program:%s:accepted" % name, {"rc": rc, "artifact": art})
                    elif NONCE in err:
                        bad = ("program:%s:diagnostic-discloses-other-variables" % name, {"stderr": err[-400:]})
                else:
                    if rc != 0 or not isinstance(art, dict) or art.get("v") != expect:
                        bad = ("program:%s:wrong-value" % name, {"rc": rc, "artifact": art, "expected": expect, "stderr": err[-300:]})
            k = "%s:%s" % (kind, "agrees" if bad is None else "VIOLATION")
            hist[k] = hist.get(k, 0) + 1
            if bad:
                viol.append((bad[0], {"kind": kind, "env": envv, "params": list(prm)}, bad[1]))
    finally:
        shutil.rmtree(d, ignore_errors=True)
    return {"evals": len(chunk), "hist": hist, "viol": viol}


PROGRAMS = [
    ("let-env", "let env = 1;\nout json {v = env};\n", "error"),
    ("let-env-tuple", "let env = {A = \"shadow\"};\nout json {v = env.A};\n", "error"),
    ("field-named-env", "let t = {env = 1};\nout json {v = t.env};\n", 1),
    ("field-named-env-inline", "out json {v = {env = \"f\"}.env};\n", "f"),
    ("nested-selector-env", "let t = {a = {env = {A = \"inner\"}}};\nout json {v = t.a.env.A};\n", "inner"),
    ("module-parameter-env", "let m = module {env = \"p\"} => { let r = mod.env; };\nout json {v = m{}.r};\n", "p"),
    ("module-parameter-env-override", "let m = module {env = \"p\"} => { let r = mod.env; };\nout json {v = m{env = \"q\"}.r};\n", "q"),
    ("copy-field-env", "let t = {env = 1};\nout json {v = t{env = 2}.env};\n", 2),
    ("env-inside-function", "let f = func (n) => env.A + n;\nout json {v = f(\"!\")};\n", "setA!"),
    ("env-inside-module", "let m = module {} => { let r = env.A; };\nout json {v = m{}.r};\n", "setA"),
    ("env-in-select", "out json {v = select (env.A, \"d\") => {setA = \"hit\"}};\n", "hit"),
    ("whole-env-not-shadowed-by-field", "let t = {env = {A = \"no\"}};\nout json {v = env.A};\n", "setA"),
    # env is a tuple like any other: copied, handed on, compared — after some of its fields were read
    ("copy-of-env-after-a-read", "let a = env.A;\nlet e = env{X = \"1\"};\nlet b = e.HOME;\nout json {v = select (b == env.HOME, \"differs\") => {true = a + e.X}};\n", "setA1"),
    ("copy-of-env-before-any-read", "let e = env{X = \"1\"};\nout json {v = e.A + e.X};\n", "setA1"),
    ("env-handed-to-a-function-after-a-read", "let a = env.A;\nlet f = func (t) => t.HOME;\nout json {v = select (f(env) == env.HOME, \"differs\") => {true = a}};\n", "setA"),
    ("env-in-a-tuple-after-a-read", "let a = env.A;\nlet t = {e = env};\nout json {v = select (t.e.HOME == env.HOME, \"differs\") => {true = a}};\n", "setA"),
    # every other construct that binds a name
    ("function-parameter-env", "let f = func (env) => env.A;\nout json {v = f({A = \"shadow\"})};\n", "error"),
    ("second-function-parameter-env", "let f = func (n, env) => env.A;\nout json {v = f(1, {A = \"shadow\"})};\n", "error"),
    ("map-callback-parameter-env", "out json {v = map(func (env) => env.A, [{A = \"shadow\"}]).0};\n", "error"),
    ("filter-callback-parameter-env", "out json {v = filter(func (env) => env.A == \"shadow\", [{A = \"shadow\"}])};\n", "error"),
    ("reduce-accumulator-parameter-env", "out json {v = reduce(func (env, i) => env.A, {A = \"shadow\"}, [0])};\n", "error"),
    ("reduce-item-parameter-env", "out json {v = reduce(func (acc, env) => env.A, NULL, [{A = \"shadow\"}])};\n", "error"),
    ("tuple-map-callback-parameter-env", "out json {v = map(func (k, env) => [k, env.A], {x = {A = \"shadow\"}})};\n", "error"),
    ("module-body-let-env", "let m = module {} => { let env = {A = \"shadow\"}; let r = env.A; };\nout json {v = m{}.r};\n", "error"),
    ("constraint-statement-env", "constraint env = 1 | 2;\nout json {v = env.A};\n", "error"),
    ("constrained-let-env", "let env :: {} = {A = \"shadow\"};\nout json {v = env.A};\n", "error"),
    ("import-bound-to-env", "let env = import \"std/lists.ucg\";\nout json {v = env.A};\n", "error"),
    ("function-named-env", "let env = func (n) => n;\nout json {v = env(1)};\n", "error"),
]


def cases(thorough):
    # (1) every subset of <= 3 names, fixed values, read each set name and each unset name
    for k in range(0, 4):
        for subset in itertools.combinations(NAMES, k):
            envv = {n: FIXED[(i + k) % len(FIXED)] or "v%d" % i for i, n in enumerate(subset)}
            for n in NAMES:
                for quoted in (False, True):
                    if not quoted and not n[0].isalpha():
                        continue
                    for strict in (True, False):
                        if n in envv:
                            yield ("read-set", envv, (n, quoted, strict))
                        else:
                            yield ("read-unset", envv, (n, quoted, strict))
    # (2) values over the alphabet on one variable
    for ln in range(0, 4 if thorough else 3):
        for t in itertools.product(ALPHA, repeat=ln):
            v = "".join(t)
            yield ("read-set", {"A": v, "X1": "other"}, ("A", ln % 2 == 0, True))
    for v in FIXED:
        yield ("read-set", {"A": v}, ("A", False, True))
        yield ("read-set", {"A": v}, ("A", True, False))
    # (3) a 20-variable environment
    big = {"V%02d" % i: "value-%d" % i for i in range(20)}
    for i in (0, 7, 19):
        yield ("read-set", big, ("V%02d" % i, False, True))
    yield ("read-unset", big, ("V99", False, True))
    yield ("read-unset", big, ("V99", False, False))
    # (3a) a variable whose value is not UTF-8 sits in the environment: the other variables read as ever
    for hx in ("fffe", "6f6b80", "c3", "c328", "eda080"):
        envv = {"A": "setA", "BADVAR": "@BYTES:" + hx}
        for strict in (True, False):
            for quoted in (False, True):
                yield ("read-set", envv, ("A", quoted, strict))
                yield ("read-unset", envv, ("ZZ_UNSET", quoted, strict))
            yield ("read-undecodable", envv, (strict,))
    # (3b) every place env can be read from x set / unset x bare / quoted x strict / --no-strict
    for place, _, _ in PLACES:
        for name in ("A", "ZZ_UNSET"):
            for quoted in (False, True):
                for strict in (True, False):
                    yield ("read-from", {"A": "setA", "X1": "other"}, (place, name, quoted, strict))
    # (3a') the smallest environments: nothing but HOME and one short secret, the secret as the only variable with a long name, ...
    for extra in ({}, {"K": "v"}, {"TOKEN": "s3cr3t-two"}):
        envv = dict({"HOME": "h"}, **extra)
        for quoted in (False, True):
            yield ("read-unset-small", envv, ("ZZ", quoted, True))
            yield ("read-unset-small", envv, ("Z", quoted, True))
    # (3b') the recursive directory walk: the same reads from files at depth 0, 1 and 2 of `ucg build -r .`
    for name in ("A", "ZZ_UNSET"):
        for quoted in (False, True):
            for strict in (True, False):
                yield ("read-recursive", {"A": "setA", "X1": "other"}, (name, quoted, strict))
    # (3c) two reads in one file: what the first read leaves behind must not matter for the second
    names = ["A", "X1", "map", "ZZ_UNSET"]
    for n1, n2 in itertools.product(names, repeat=2):
        for q1, q2 in itertools.product((False, True), repeat=2):
            if (n1 == "map" and not q1) or (n2 == "map" and not q2):
                continue            # a keyword can only be selected quoted
            for strict in (True, False):
                yield ("read-two", {"A": "setA", "X1": "other", "map": "kw"}, (n1, q1, n2, q2, strict))
    # (4) programs
    for name, src, expect in PROGRAMS:
        for strict in (True, False):
            yield ("program", {"A": "setA"}, (name, src, expect, strict))


def _run(ctx):
    thorough = ctx.tier == "thorough"
    cs = list(cases(thorough))
    ctx.bounds = {"names": len(NAMES), "subset_size": 3, "value_length": 3 if thorough else 2, "alphabet": len(ALPHA), "programs": len(PROGRAMS)}
    ctx.rule = ("environments passed explicitly to the real binary: every subset of <= 3 of 6 variable names x every name read (bare and quoted "
                "selector) x strict/--no-strict; every value of length <= %d over 9 shell-significant characters plus a Unicode/long pool on one "
                "variable; one 20-variable environment; a set and an unset name read from %d further places (function / module body, callbacks, "
                "tuple field, select arm, format argument, an imported file, a function / module defined in an imported file, a file imported "
                "by an imported file) x bare/quoted x strict/--no-strict; %d programs binding or naming env with every binding construct; a secret is planted in "
                "an unrelated variable in every run. All cases distinct; non-trivial = the binary ran and its artifact / diagnostic was judged." % (
                    3 if thorough else 2, len(PLACES), len(PROGRAMS)))
    viol = []
    for part in core.pmap(work, cs, chunk=12):
        ctx.count(part["evals"], part["evals"])
        for k, v in part["hist"].items():
            ctx.outcome(k, v)
        viol.extend(part["viol"])
    ctx.sample({"env": {"A": "$HOME", "SECRET_TOKEN_4": "<nonce>"}, "program": "out json {v = env.A};"})
    ctx.sample({"env": {"SECRET_TOKEN_3": "<nonce>"}, "program": "out json {v = env.FOO};", "expect": "exit 1, names FOO, no other value disclosed"})
    seen = {}
    for sig, case, det in sorted(viol, key=lambda v: len(str(v[1]))):
        if sig in seen:
            ctx.violations[sig]["count"] += 1
            continue
        seen[sig] = 1
        ctx.violation(sig, "%s for %s" % (sig, core.json.dumps(case, ensure_ascii=False)[:200]), {"kind": "env", "case": case, "detail": det})


def replay(case):
    c = case["case"]
    envv = dict(c["env"])
    for k in list(envv):
        if k.startswith("SECRET_TOKEN_"):
            del envv[k]
    part = work([(c["kind"], envv, tuple(c["params"]))])
    return not part["viol"], {"violations": part["viol"]}
