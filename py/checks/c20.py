"""C20 — the language server survives any session and answers from the current text only.

Model checking by trace replay against `ucg lsp` over stdio (one server process per trace).

Model: server state = map uri -> text of the open documents over a fixed on-disk workspace
(a.ucg importing lib.ucg). Messages: open(d, t), change(d, t), close(d) and the five requests at
a position. Spec, after any prefix: every request has been answered (same id), the process is
alive, every reported range lies inside the document it refers to, and the last diagnostics
published for every open document equal what a FRESH server publishes after a single
didOpen(d, text(d)); a syntax diagnostic is present exactly when ucglib's parser rejects the text,
at the same position; a text the compiler builds gets no diagnostics.
"""
import itertools
import json
import os
import shutil
import tempfile

from vf import core, lsp, reflex

LEVEL = "model_checking"

LIB_DISK = "let v = 1;\n"
A_DISK = 'let l = import "./lib.ucg";\nlet r = l.v;\n'
# a library whose definitions sit far below the last line of the documents that import it
BIG_DISK = "// filler\n" * 20 + "let cfg = {\n    port = 1,\n    host = \"h\",\n};\nlet far = 2;\n"
DISK = {"a.ucg": A_DISK, "lib.ucg": LIB_DISK, "big.ucg": BIG_DISK, "k_test.ucg": "let kk = 1;\n"}

# Triangles on disk: A imports C and then B, B imports C, and A's diagnostic depends on a shape B
# derives from C (two import levels). The directory walk order is file-system dependent, so 12
# triangles with differently ordered names are laid out (added after a seeded change to the
# workspace indexer's topological sort went unnoticed with the two-file workspace).
TRIANGLES = []
for _k, _perm in enumerate(list(itertools.permutations(["aa", "mm", "zz"])) * 2):
    _a, _b, _c = ("%s%d.ucg" % (x, _k) for x in _perm)
    TRIANGLES.append((_a, _b, _c))
    DISK[_c] = "let v = 1;\n"
    DISK[_b] = 'let c = import "./%s";\nlet w = c.v;\n' % _c
    DISK[_a] = 'let c = import "./%s";\nlet b = import "./%s";\nlet z = b.w + "s";\n' % (_c, _b)

# The same two import levels through sub-directories and `../`: main imports d1/x, which imports ../d2/y. The start-up
# index must analyse y before x whatever order the directory walk lists them in (added after a seeded change to the
# import scanner — paths with `..` no longer normalised — went unnoticed with files in one directory).
SUBTRI = []
for _k, (_d1, _d2) in enumerate([("app", "lib"), ("lib", "app"), ("zz", "aa"), ("aa", "zz"), ("m1", "m0"), ("m0", "m1"), ("b", "a"), ("a", "b")]):
    _x, _y, _m = "%s%d/x.ucg" % (_d1, _k), "%s%d/y.ucg" % (_d2, _k), "main%d.ucg" % _k
    _files = [(_y, "let n = 1;\n"), (_x, 'let y = import "../%s";\nlet v = y.n;\n' % _y)]
    for _n, _t in (_files if _k % 4 < 2 else _files[::-1]):       # both creation orders
        DISK[_n] = _t
    DISK[_m] = 'let x = import "./%s";\nlet r = x.v + "s";\n' % _x
    SUBTRI.append((_m, _x, _y))

RICH = ('// doc comment\nlet t = {\n    a = 1,\n    "b c" = [1, 2],\n};\nlet f = func (p) => p + t.a;\nlet s = select ("a", 0) => {\n    a = f(1),\n};\n'
        'let m = module {q = 1} => (r) {\n    let r = mod.q;\n};\nlet z = "@ @" % (1, m{});\n')
TEXTS = {
    "valid": "let x = 1;\nlet y = x + 1;\n",
    "valid-import": A_DISK,
    "syntax-first-line": "let = 1;\nlet y = 2;\n",
    "syntax-last-line": "let x = 1;\nlet y = ;\n",
    "type-error": 'let x = 1 + "s";\n',
    "empty": "",
    "non-ascii-then-error": 'let s = "ééééé"; let = 1;\n',
    "crlf": "let x = 1;\r\nlet y = x;\r\n",
    "unterminated-string": 'let s = "abc;\n',
    "rich": RICH,
    "non-ascii-valid": 'let s = "日本語 😀";\nlet u = s + "é";\n',
    "lib-v": LIB_DISK,
    "lib-no-v": "let w = 2;\n",
    "lib-syntax-error": "let v = ;\n",
    "uses-missing-field": 'let l = import "./lib.ucg";\nlet r = l.nosuch;\n',
    "no-trailing-newline": "let x = 1;",
    "only-comment": "// nothing here\n",
    "import-field-chain": 'let b = import "./big.ucg";\nlet t = b.cfg;\nlet v = t.port + b.far;\nlet w = b.cfg.host;\n',
    "deeply-nested-list": "let deep = " + "[" * 30 + "1" + "]" * 30 + ";\n",
    "deeply-nested-mixed": "let deep = " + "[{a = (" * 10 + "1" + ")}]" * 10 + ";\n",
    "k-unsaved": "// edited, never saved\n" * 30 + "let zz = 1;\n",
    "uses-k-test": 'let k = import "./k_test.ucg";\nlet y = k.kk + 1;\n',
    "string-with-line-break": 'let s = "one\ntwo\nthree";\nlet e = "a\\n\\n\\nb";\n',
    # ghost.ucg is never on disk: it exists only while an editor has it open
    "ghost-text": "let x = 1;\n",
    "uses-ghost": 'let g = import "./ghost.ucg";\nlet y = g.x + "s";\n',
    "adds-string-to-lib-v": 'let l = import "./lib.ucg";\nlet r = l.v + "s";\n',
}
for _n, _t in list(DISK.items()):
    if _n not in ("a.ucg", "lib.ucg", "big.ucg", "k_test.ucg"):
        TEXTS["disk:" + _n] = _t
CORE = {"a.ucg": ["valid-import", "valid", "syntax-first-line", "type-error", "non-ascii-then-error"],
        "lib.ucg": ["lib-v", "lib-no-v", "lib-syntax-error", "empty", "rich"]}


def make_ws():
    d = tempfile.mkdtemp(prefix="ucgverif-c20-")
    for n, t in DISK.items():
        if "/" in n:
            os.makedirs(os.path.join(d, os.path.dirname(n)), exist_ok=True)
        with open(os.path.join(d, n), "w") as f:
            f.write(t)
    return d


def norm_diags(ds):
    out = []
    for x in ds or []:
        r = x.get("range", {})
        out.append((r.get("start", {}).get("line"), r.get("start", {}).get("character"), r.get("end", {}).get("line"), r.get("end", {}).get("character"),
                    x.get("severity"), x.get("message")))
    return sorted(out, key=lambda t: json.dumps(t))


_FRESH = {}


def fresh_diagnostics(doc, text, removed=()):
    """what a fresh server publishes after a single didOpen(doc, text) over the on-disk workspace (less the files a trace
    has deleted)"""
    key = (doc, text, tuple(sorted(removed)))
    if key not in _FRESH:
        d = make_ws()
        for n in removed:
            os.unlink(os.path.join(d, n))
        try:
            c = lsp.Client(d)
            try:
                c.open(doc, text)
                c.sync()
                _FRESH[key] = norm_diags(c.last_diagnostics().get(c.uri(doc)))
            finally:
                c.shutdown()
        finally:
            shutil.rmtree(d, ignore_errors=True)
    return _FRESH[key]


UNANSWERED = [0]
SESSION_POSITIONS = [(0, 0), (0, 5), (1, 9), (50, 0)]


def session_requests(c, model, step_no):
    """After a notification: hover / definition / completion at four positions and semanticTokens
    for every document of the workspace (open or not) and for a uri the server never heard of.
    Every request must be answered; for an open document with a result and ranges inside its
    current text. -> (violations, number of requests)"""
    viol = []
    ids = {}
    if UNANSWERED[0] >= 3:
        return viol, 0          # this worker has waited out three unanswered requests already: the finding is recorded, go on with the traces
    for doc in ("a.ucg", "lib.ucg", "never-seen.ucg"):
        uri = c.uri(doc)
        for (line, ch) in SESSION_POSITIONS:
            tdp = {"textDocument": {"uri": uri}, "position": {"line": line, "character": ch}}
            for kind in ("hover", "definition", "completion"):
                ids[c.send_request("textDocument/" + kind, tdp)] = (kind, doc, line, ch)
        ids[c.send_request("textDocument/semanticTokens/full", {"textDocument": {"uri": uri}})] = ("semanticTokens", doc, 0, 0)
    answers = c.wait_for(list(ids))
    for i, (kind, doc, line, ch) in ids.items():
        m = answers.get(i)
        state = "open" if doc in model else ("closed-or-never-opened" if doc != "never-seen.ucg" else "unknown-uri")
        if m is None:
            viol.append(("request-not-answered:%s:%s-document" % (kind, state), {"doc": doc, "position": [line, ch], "after_step": step_no}))
            UNANSWERED[0] += 1
            break
        if doc in model:
            if "error" in m:
                viol.append(("request-error:%s:open-document" % kind, {"doc": doc, "position": [line, ch], "error": m["error"], "after_step": step_no}))
            elif kind == "hover" and m.get("result") and m["result"].get("range"):
                bad = range_ok(m["result"]["range"], TEXTS[model[doc]])
                if bad:
                    viol.append(("range-outside-document:hover:in-session", {"doc": doc, "text": model[doc], "position": [line, ch], "why": bad, "after_step": step_no}))
    return viol, len(ids)


def run_trace(trace, with_requests=True):
    """trace: list of ("open"|"change", doc, text-name) | ("close", doc). -> (violations, steps_done)"""
    d = make_ws()
    viol = []
    model = {}
    try:
        c = lsp.Client(d)
        try:
            removed = set()
            for step in trace:
                if step[0] == "unlink":
                    # the file is deleted on disk (by something else than the editor); no message is sent
                    os.unlink(os.path.join(d, step[1]))
                    removed.add(step[1])
                    continue
                if step[0] == "close":
                    c.close_doc(step[1])
                    model.pop(step[1], None)
                else:
                    (c.open if step[0] == "open" else c.change)(step[1], TEXTS[step[2]])
                    model[step[1]] = step[2]
                c.sync()
                if with_requests and len(trace) <= 2 and all(st[1] in ("a.ucg", "lib.ucg") for st in trace):
                    v, n = session_requests(c, model, trace.index(step))
                    viol.extend(v)
                    REQUESTS_SENT[0] += n
            last = c.last_diagnostics()
            for doc, tname in model.items():
                got = norm_diags(last.get(c.uri(doc)))
                want = fresh_diagnostics(doc, TEXTS[tname], removed)
                if got != want:
                    viol.append(("diagnostics-differ-from-fresh-server", {"doc": doc, "text": tname, "published": got, "fresh": want}))
            if not c.alive():
                viol.append(("server-died", {}))
        except lsp.ServerDied as e:
            viol.append(("server-died", {"error": str(e)}))
        finally:
            c.shutdown()
    finally:
        shutil.rmtree(d, ignore_errors=True)
    return viol


def unsaved_other(trace, bad_doc):
    """was another document open with a text that differs from the file on disk at the moment bad_doc was last analysed?"""
    model = {}
    res = False
    for st in trace:
        if st[0] == "unlink":
            continue
        if st[0] == "close":
            model.pop(st[1], None)
        else:
            model[st[1]] = st[2]
            if st[1] == bad_doc:
                res = any(d_ != bad_doc and TEXTS[t_] != DISK.get(d_) for d_, t_ in model.items())
    return res


def shrink_trace(trace, kind, bad_doc=None):
    """drop messages while the same kind of violation remains and (for history-dependent diagnostics) remains one that the
    unsaved buffer of another open document does not explain"""
    cur = list(trace)
    changed = True
    while changed and len(cur) > 1:
        changed = False
        for i in range(len(cur)):
            cand = cur[:i] + cur[i + 1:]
            if any(v[0] == kind and (bad_doc is None or (v[1].get("doc") == bad_doc and not unsaved_other(cand, bad_doc))) for v in run_trace(cand)):
                cur = cand
                changed = True
                break
    return cur


def abstract_trace(trace, detail):
    bad_doc = detail.get("doc")
    parts = []
    for st in trace:
        who = "self" if st[1] == bad_doc else "other"
        if st[0] in ("close", "unlink"):
            parts.append("%s(%s)" % (st[0], who))
        else:
            same_as_disk = TEXTS[st[2]] == DISK.get(st[1])
            parts.append("%s(%s,%s)" % (st[0], who, "disk-text" if same_as_disk else st[2]))
    return " ".join(parts)


REQUESTS_SENT = [0]


def work_traces(chunk):
    hist = {}
    viol = []
    REQUESTS_SENT[0] = 0
    for trace in chunk:
        v = run_trace(trace)
        k = "trace%d:%s" % (len(trace), "agrees" if not v else "VIOLATION:" + v[0][0])
        hist[k] = hist.get(k, 0) + 1
        for kind, det in v:
            viol.append((kind, trace, det))
    if REQUESTS_SENT[0]:
        hist["requests-in-session"] = REQUESTS_SENT[0]
    return {"evals": len(chunk) + REQUESTS_SENT[0], "hist": hist, "viol": viol, "transitions": sum(len(t) for t in chunk)}


# -- requests ----------------------------------------------------------------------------------

def utf16_len(s):
    return len(s.encode("utf-16-le")) // 2


def lines_of(text):
    # LSP line terminators: \n, \r\n, \r
    return text.replace("\r\n", "\n").replace("\r", "\n").split("\n")


def positions_for(text):
    pos = set()
    ls = text.split("\n")
    try:
        toks = reflex.lex(text)
    except reflex.LexError:
        toks = []
    for t in toks:
        line = t[3] - 1
        if line < len(ls):
            col16 = utf16_len(ls[line].encode("utf-8")[:t[4] - 1].decode("utf-8", "ignore"))
            pos.add((line, col16))
            pos.add((line, col16 + max(1, utf16_len(t[1]) // 2)))
    for i, ln in enumerate(ls):
        pos.add((i, 0))
        pos.add((i, utf16_len(ln.rstrip("\r"))))
        pos.add((i, utf16_len(ln) + 5))
    n = len(ls)
    pos.update([(n, 0), (n + 3, 7), (10 ** 6, 10 ** 6), (2 ** 32 - 1, 0), (0, 2 ** 32 - 1), (2 ** 32 - 1, 2 ** 32 - 1), (2 ** 31, 2 ** 31 - 1)])
    return sorted(pos)


def range_ok(rng, text):
    """start inside the document; end not before start"""
    try:
        s, e = rng["start"], rng["end"]
        ls = lines_of(text)
        if s["line"] >= len(ls) or e["line"] >= len(ls) + 1:
            return "line %d beyond the document (%d lines)" % (max(s["line"], e["line"]), len(ls))
        if s["character"] > utf16_len(ls[s["line"]]):
            return "start character %d beyond its line (%d UTF-16 units)" % (s["character"], utf16_len(ls[s["line"]]))
        if (e["line"], e["character"]) < (s["line"], s["character"]):
            return "end before start"
    except (KeyError, TypeError):
        return "malformed range %r" % (rng,)
    return None


def text_of_uri(uri, root, open_docs):
    name = os.path.basename(uri)
    if uri in open_docs:
        return open_docs[uri]
    p = uri[len("file://"):]
    try:
        return open(p).read()
    except OSError:
        return None


def check_requests(tname):
    text = TEXTS[tname]
    d = make_ws()
    viol = []
    nreq = 0
    try:
        c = lsp.Client(d)
        try:
            c.open("a.ucg", text)
            c.sync()
            uri = c.uri("a.ucg")
            open_docs = {uri: text}
            ids = {}
            for (line, ch) in positions_for(text):
                tdp = {"textDocument": {"uri": uri}, "position": {"line": line, "character": ch}}
                ids[c.send_request("textDocument/hover", tdp)] = ("hover", line, ch)
                ids[c.send_request("textDocument/definition", tdp)] = ("definition", line, ch)
                ids[c.send_request("textDocument/completion", tdp)] = ("completion", line, ch)
            ids[c.send_request("textDocument/semanticTokens/full", {"textDocument": {"uri": uri}})] = ("semanticTokens", 0, 0)
            for q in ("", "x", "v", "l"):
                ids[c.send_request("workspace/symbol", {"query": q})] = ("workspaceSymbol", 0, 0)
            nreq = len(ids)
            answers = c.wait_for(list(ids))
            for i, (kind, line, ch) in ids.items():
                m = answers.get(i)
                if m is None:
                    viol.append(("request-not-answered:%s" % kind, {"position": [line, ch]}))
                    continue
                if "error" in m:
                    viol.append(("request-error:%s" % kind, {"position": [line, ch], "error": m["error"]}))
                    continue
                res = m.get("result")
                if kind == "hover" and res and res.get("range"):
                    bad = range_ok(res["range"], text)
                    if bad:
                        viol.append(("range-outside-document:hover", {"position": [line, ch], "why": bad, "range": res["range"]}))
                if kind == "definition" and res:
                    locs = res if isinstance(res, list) else [res]
                    for loc in locs:
                        t = text_of_uri(loc.get("uri", ""), d, open_docs)
                        bad = "target document unknown" if t is None else range_ok(loc.get("range"), t)
                        if bad:
                            viol.append(("range-outside-document:definition", {"position": [line, ch], "why": bad, "location": loc}))
                if kind == "completion" and res:
                    for it in res.get("items", []):
                        te = it.get("textEdit")
                        if te and te.get("range"):
                            bad = range_ok(te["range"], text)
                            if bad:
                                viol.append(("range-outside-document:completion", {"position": [line, ch], "why": bad}))
                if kind == "semanticTokens" and res:
                    data = res.get("data", [])
                    ln = chh = 0
                    ls = lines_of(text)
                    for k in range(0, len(data) - 4, 5):
                        dl, dc, length = data[k], data[k + 1], data[k + 2]
                        ln += dl
                        chh = dc if dl else chh + dc
                        if ln >= len(ls) or chh + length > utf16_len(ls[ln]) + (1 if length == 0 else 0):
                            viol.append(("range-outside-document:semanticTokens", {"token": [ln, chh, length],
                                                                                 "line_utf16": utf16_len(ls[ln]) if ln < len(ls) else None, "lines": len(ls)}))
                            break
                if kind == "workspaceSymbol" and res:
                    for sym in res:
                        loc = sym.get("location", {})
                        t = text_of_uri(loc.get("uri", ""), d, open_docs)
                        bad = "target document unknown" if t is None else range_ok(loc.get("range"), t)
                        if bad:
                            viol.append(("range-outside-document:workspaceSymbol", {"why": bad, "symbol": sym.get("name")}))
            if not c.alive():
                viol.append(("server-died", {}))
        except lsp.ServerDied as e:
            viol.append(("server-died", {"error": str(e)}))
        finally:
            c.shutdown()
    finally:
        shutil.rmtree(d, ignore_errors=True)
    return viol, nreq


def check_diagnostics_vs_compiler(tname):
    """syntax diagnostic <=> the compiler's parser rejects, same position; a text that builds gets none"""
    text = TEXTS[tname]
    viol = []
    srv = core.worker_server()
    pr = srv.req({"op": "parse", "src": text})
    try:
        got = fresh_diagnostics("a.ucg", text)
    except lsp.ServerDied as e:
        return [("server-died", {"error": str(e), "on": "didOpen of the text alone"})]
    if "err" in pr and pr.get("pos"):
        line, col = pr["pos"][0], pr["pos"][1]
        ls = text.split("\n")
        want_line = line - 1
        bytes_before = ls[want_line].encode("utf-8")[:col - 1] if want_line < len(ls) else b""
        want_char = utf16_len(bytes_before.decode("utf-8", "ignore"))
        starts = [(g[0], g[1]) for g in got]
        if not got:
            viol.append(("syntax-error-without-diagnostic", {"parser": pr["err"][:200]}))
        elif (want_line, want_char) not in starts:
            cls = "byte-column" if (want_line, col - 1) in starts else "elsewhere"
            viol.append(("syntax-diagnostic-position:%s" % cls, {"expected": [want_line, want_char], "published": starts, "parser_position": [line, col]}))
    elif "ok" in pr:
        d = make_ws()
        try:
            p = os.path.join(d, "a.ucg")
            with open(p, "w") as f:
                f.write(text)
            b = srv.req({"op": "build", "path": p, "env": "fresh"})
        finally:
            shutil.rmtree(d, ignore_errors=True)
        if "ok" in b and got:
            viol.append(("diagnostics-on-text-that-builds", {"published": got}))
    return viol


def work_requests(chunk):
    hist = {}
    viol = []
    n = 0
    for tname in chunk:
        v, nreq = check_requests(tname)
        v2 = check_diagnostics_vs_compiler(tname)
        n += nreq + 1
        k = "requests:%s" % ("all-answered-in-range" if not v else "VIOLATION")
        hist[k] = hist.get(k, 0) + 1
        k2 = "diagnostics-vs-compiler:%s" % ("agrees" if not v2 else "VIOLATION")
        hist[k2] = hist.get(k2, 0) + 1
        for kind, det in v + v2:
            viol.append((kind, [("open", "a.ucg", tname)], dict(det, text=tname)))
    return {"evals": n, "hist": hist, "viol": viol, "transitions": len(chunk)}


# Token-level documents: every sequence of <= 3 tokens over a vocabulary of the tokens the server's
# cursor logic looks at (dots, names, brackets, keywords), bare and after a line that defines the
# names. Most do not parse; each must still be answered. One server per chunk: the documents are
# sent as successive didChange of one open document, the server is restarted if it dies.
TOKDOC_VOCAB = [".", "t", "a", "let", "=", "1", ";", "(", ")", "{", "}", "import", '"s"', ","]
TOKDOC_PREFIXES = [("bare", ""), ("after-definitions", "let t = {a = 1};\n")]


def token_documents(maxlen, vocab):
    for ln in range(1, maxlen + 1):
        for toks in itertools.product(vocab, repeat=ln):
            for pname, pre in TOKDOC_PREFIXES:
                yield pname, pre + " ".join(toks)


def work_token_documents(chunk):
    hist = {}
    viol = []
    nreq = 0
    d = make_ws()
    c = None
    try:
        for pname, text in chunk:
            bad = None
            try:
                if c is None:
                    c = lsp.Client(d)
                    c.open("a.ucg", text)
                else:
                    c.change("a.ucg", text, decoy=False)
                c.sync()
                uri = c.uri("a.ucg")
                ids = {}
                for (line, ch) in positions_for(text):
                    if line > 3:
                        continue
                    tdp = {"textDocument": {"uri": uri}, "position": {"line": line, "character": ch}}
                    for kind in ("hover", "definition", "completion"):
                        ids[c.send_request("textDocument/" + kind, tdp)] = (kind, line, ch)
                ids[c.send_request("textDocument/semanticTokens/full", {"textDocument": {"uri": uri}})] = ("semanticTokens", 0, 0)
                nreq += len(ids)
                answers = c.wait_for(list(ids))
                for i, (kind, line, ch) in ids.items():
                    m = answers.get(i)
                    if m is None:
                        bad = ("request-not-answered:%s" % kind, {"position": [line, ch]})
                        break
                    if "error" in m:
                        bad = ("request-error:%s" % kind, {"position": [line, ch], "error": m["error"]})
                        break
                    res = m.get("result")
                    if kind == "hover" and res and res.get("range") and range_ok(res["range"], text):
                        bad = ("range-outside-document:hover", {"position": [line, ch], "why": range_ok(res["range"], text)})
                        break
                if bad is None and not c.alive():
                    bad = ("server-died", {})
            except lsp.ServerDied as e:
                bad = ("server-died", {"error": str(e)})
            if bad and (bad[0] == "server-died" or bad[0].startswith("request-not-answered")):
                # find which request kills it: replay this document alone, one request at a time
                try:
                    if c is not None:
                        c.shutdown()
                except Exception:
                    pass
                c = None
            k = "token-document-%s:%s" % (pname, "all-answered" if bad is None else "VIOLATION")
            hist[k] = hist.get(k, 0) + 1
            if bad:
                viol.append((bad[0], [("open", "a.ucg", "token-document")], dict(bad[1], token_text=text, prefix=pname)))
    finally:
        try:
            if c is not None:
                c.shutdown()
        finally:
            shutil.rmtree(d, ignore_errors=True)
    return {"evals": nreq, "hist": hist, "viol": viol, "transitions": len(chunk)}


def alphabet(texts_per_doc):
    steps = []
    for doc in ("a.ucg", "lib.ucg"):
        for t in CORE[doc][:texts_per_doc]:
            steps.append(("open", doc, t))
            steps.append(("change", doc, t))
        steps.append(("close", doc))
    return steps


def covering_tour():
    """a 30-message session in which every ordered pair of message kinds occurs (declared as a
    covering tour, not as exhaustive)"""
    a, l = "a.ucg", "lib.ucg"
    return [("open", a, "valid-import"), ("open", l, "lib-v"), ("change", l, "lib-no-v"), ("change", a, "valid"), ("close", l), ("open", l, "rich"),
            ("close", a), ("close", l), ("change", a, "syntax-first-line"), ("open", a, "type-error"), ("open", l, "lib-syntax-error"), ("change", l, "lib-v"),
            ("change", l, "empty"), ("close", l), ("change", l, "lib-v"), ("close", a), ("open", a, "non-ascii-then-error"), ("change", a, "valid-import"),
            ("close", a), ("close", a), ("open", l, "lib-no-v"), ("open", a, "valid-import"), ("change", a, "uses-missing-field"), ("close", l),
            ("change", a, "valid-import"), ("open", l, "lib-v"), ("close", l), ("change", a, "crlf"), ("change", a, "valid-import"), ("close", a)]


def run(ctx):
    thorough = ctx.tier == "thorough"
    full = alphabet(5)
    small = alphabet(3)
    traces = [list(t) for n in (1, 2) for t in itertools.product(full, repeat=n)]
    traces += [list(t) for t in itertools.product(small if not thorough else full, repeat=3)]
    if thorough:
        traces += [list(t) for t in itertools.product(small, repeat=4)]
    traces.append(covering_tour())
    # X is opened with an unsaved text and closed again; Y, which imports X, is (re-)sent with one and the same text
    # before and after: what Y's text means must be taken from the disk again, and the same text must be analysed again
    for tl in CORE["lib.ucg"]:
        for ta in ("valid-import", "uses-missing-field"):
            traces.append([("open", "lib.ucg", tl), ("open", "a.ucg", ta), ("close", "lib.ucg"), ("change", "a.ucg", ta)])
            traces.append([("open", "a.ucg", ta), ("open", "lib.ucg", tl), ("change", "a.ucg", ta), ("close", "lib.ucg"), ("change", "a.ucg", ta)])
            traces.append([("open", "lib.ucg", tl), ("close", "lib.ucg"), ("open", "a.ucg", ta), ("change", "a.ucg", ta)])
    # the same with a document the workspace index does not read on its own (a *_test.ucg file)
    for first in ([("open", "k_test.ucg", "k-unsaved"), ("close", "k_test.ucg")], [("open", "k_test.ucg", "k-unsaved"), ("change", "k_test.ucg", "k-unsaved"), ("close", "k_test.ucg")],
                  [("open", "k_test.ucg", "k-unsaved")], []):
        traces.append(first + [("open", "a.ucg", "uses-k-test")])
        traces.append(first + [("open", "a.ucg", "uses-k-test"), ("change", "a.ucg", "uses-k-test")])
    # a document that is not on disk (a new, unsaved buffer) is opened and closed again: nothing of it may be left for
    # a document that names it in an import (added after a sixth-round remark about the unchanged tree)
    for first in ([("open", "ghost.ucg", "ghost-text"), ("close", "ghost.ucg")], [("open", "ghost.ucg", "ghost-text"), ("change", "ghost.ucg", "ghost-text"), ("close", "ghost.ucg")],
                  [("open", "ghost.ucg", "ghost-text"), ("close", "ghost.ucg"), ("close", "ghost.ucg")], []):
        traces.append(first + [("open", "a.ucg", "uses-ghost")])
        traces.append(first + [("open", "a.ucg", "uses-ghost"), ("change", "a.ucg", "uses-ghost")])
        traces.append([("open", "a.ucg", "uses-ghost")] + first + [("change", "a.ucg", "uses-ghost")])
    # the file of an open document is deleted on disk; once the document is closed nothing of it may be left either
    for ta in ("adds-string-to-lib-v", "valid-import"):
        for tl in ("lib-v", "lib-no-v"):
            traces.append([("open", "lib.ucg", tl), ("unlink", "lib.ucg"), ("close", "lib.ucg"), ("open", "a.ucg", ta)])
            traces.append([("open", "a.ucg", ta), ("open", "lib.ucg", tl), ("unlink", "lib.ucg"), ("close", "lib.ucg"), ("change", "a.ucg", ta)])
        # (a file deleted while no document of it is open and no message tells the server is not judged: the property's
        # sessions are made of the editor's messages, and nothing in them lets the server know)
    for a, b, c in TRIANGLES:
        for first in (b, c):
            for kind in ("open", "change"):
                traces.append([("open", first, "disk:" + first), (kind, a, "disk:" + a)])
        traces.append([("open", a, "disk:" + a)])
        traces.append([("open", b, "disk:" + b), ("close", b), ("open", a, "disk:" + a)])
    for m, x, y in SUBTRI:
        traces.append([("open", m, "disk:" + m)])
        for first in (x, y):
            traces.append([("open", first, "disk:" + first), ("close", first), ("open", m, "disk:" + m)])
            traces.append([("open", first, "disk:" + first), ("open", m, "disk:" + m)])
    ctx.bounds = {"documents": 2, "texts": len(TEXTS), "alphabet": len(full), "sequence_length": 4 if thorough else 3, "traces": len(traces)}
    ctx.rule = ("all sequences of 1..2 notifications over the full alphabet (2 documents x {open, change} x 5 texts + close = %d messages), all of "
                "length 3 over %s and, thorough, length 4 over the 3-text alphabet, legal and protocol-violating ones alike, each replayed "
                "against its own `ucg lsp` process with a barrier request after every message (in the sessions of <= 2 messages also hover / "
                "definition / completion at 4 positions and semanticTokens for every workspace document, open or not, and for an unknown "
                "uri, after every message: all answered, open documents without error and in range); afterwards the last diagnostics of every open "
                "document are compared with a fresh server. For each of %d texts opened alone: hover, definition and completion at every token "
                "start, inside every token, at every line end and beyond the text, semanticTokens/full and 4 workspace/symbol queries: all "
                "answered, all ranges inside their document; syntax diagnostics compared with ucglib's parser, buildable texts with the "
                "builder. Every document of <= 3 tokens over a %d-token vocabulary (dots, names, brackets, keywords; bare and after a line that "
                "defines the names), most of which do not parse: hover, definition, completion at every position and semanticTokens, all "
                "answered. One 30-message covering tour." % (len(full), "the full alphabet" if thorough else "a 3-text alphabet (14 messages)", len(TEXTS), len(TOKDOC_VOCAB) if thorough else 10))
    viol = []
    transitions = 0
    states = set()
    for part in core.pmap(work_traces, traces, chunk=6):
        ctx.count(part["evals"], part["evals"])
        for k, v in part["hist"].items():
            ctx.outcome(k, v)
        viol.extend(part["viol"])
        transitions += part["transitions"]
    for t in traces:
        model = {}
        for st in t:
            if st[0] == "unlink":
                continue
            if st[0] == "close":
                model.pop(st[1], None)
            else:
                model[st[1]] = st[2]
            states.add(json.dumps(sorted(model.items())))
    # (the files of the sub-directory triangles are there for the traces; as texts for the request sweeps they are the
    # import-field-chain text over again)
    for part in core.pmap(work_requests, [t for t in TEXTS if not (t.startswith("disk:") and "/" in t) and t not in ("ghost-text", "uses-ghost", "adds-string-to-lib-v")], chunk=1):
        ctx.count(part["evals"], part["evals"])
        for k, v in part["hist"].items():
            ctx.outcome(k, v)
        viol.extend(part["viol"])
    tokdocs = list(token_documents(3, TOKDOC_VOCAB if thorough else TOKDOC_VOCAB[:10]))
    if thorough:
        tokdocs += [x for x in token_documents(4, TOKDOC_VOCAB[:8]) if x[1].count(" ") >= 3 + (x[0] != "bare") * 4]
    for part in core.pmap(work_token_documents, tokdocs, chunk=60):
        ctx.count(part["evals"], part["evals"])
        for k, v in part["hist"].items():
            ctx.outcome(k, v)
        viol.extend(part["viol"])
        transitions += part["transitions"]
    ctx.coverage_extra["token_documents"] = len(tokdocs)
    ctx.sample({"trace": [["open", "a.ucg", "valid-import"], ["open", "lib.ucg", "lib-no-v"], ["change", "a.ucg", "valid-import"]],
                "spec": "diagnostics of a.ucg = fresh server on a.ucg's text"})
    ctx.sample({"requests_on": "non-ascii-then-error", "positions": positions_for(TEXTS["non-ascii-then-error"])[:6]})
    ctx.coverage_extra.update({"states": max(1, len(states)), "transitions": max(1, transitions), "traces_validated_against_impl": len(traces) + len(TEXTS)})
    # signatures: shrink traces of history-dependent diagnostics (bounded effort), abstract
    seen = {}
    budget = 12
    for kind, trace, det in sorted(viol, key=lambda v: (len(v[1]), json.dumps(v[1]))):
        if kind == "diagnostics-differ-from-fresh-server":
            # abstract: is another document open with a text that differs from the file on disk at
            # the moment the failing document was last analysed?
            bad_doc = det["doc"]
            if unsaved_other(trace, bad_doc):
                sig = "%s:another-document-had-an-unsaved-buffer-when-%s-was-analysed" % (kind, "the-importer" if bad_doc == "a.ucg" else "the-library")
            else:
                t = trace
                if budget > 0 and len(trace) > 1:
                    budget -= 1
                    t = shrink_trace(trace, kind, bad_doc)
                sig = "%s: %s" % (kind, abstract_trace(t, det))
        elif "token_text" in det:
            first = det["token_text"].split("\n")[-1].split(" ")
            sig = "%s:token-document:%s:starts-with %s" % (kind, det["prefix"], " ".join(first[:2]))
        elif kind.startswith(("range-outside-document", "syntax-diagnostic-position")):
            nonascii = any(ord(ch) > 127 for ch in TEXTS[det["text"]])
            sig = "%s:%s" % (kind, "after-non-ascii-text" if nonascii else det["text"])
        else:
            sig = "%s:%s" % (kind, det.get("text") or abstract_trace(trace, det))
        if sig in seen:
            ctx.violations[sig]["count"] += 1
            continue
        seen[sig] = 1
        if len(seen) > 60:
            break
        ctx.violation(sig, "%s in %s" % (kind, json.dumps(trace)[:200]), {"kind": "lsp", "trace": trace, "failure": kind, "detail": det})


def replay(case):
    trace = [tuple(s) for s in case["trace"]]
    if "token_text" in case["detail"]:
        part = work_token_documents([(case["detail"]["prefix"], case["detail"]["token_text"])])
        return not part["viol"], {"violations": [(v[0], v[2]) for v in part["viol"]]}
    if case["failure"] in ("diagnostics-differ-from-fresh-server", "server-died") and "text" not in case["detail"]:
        v = run_trace(trace)
        return not v, {"violations": v}
    tname = trace[0][2]
    v, _ = check_requests(tname)
    v2 = check_diagnostics_vs_compiler(tname)
    core.worker_server().close()
    core._WORKER_SERVER = None
    return not (v + v2), {"violations": (v + v2)[:5]}
