"""C14 — `out` writes one artifact: right name, same bytes as `convert`, all or nothing.

Model checking by trace replay (E3). Model: directory state = map file name -> bytes.
build(src with `out f v`): if `convert f v` succeeds with bytes b then state[stem.ext(f)] := b and
exit 0; else state unchanged and exit 1; a second out is an error (exit 1; the first artifact may
or may not have been written); no out: state unchanged, exit 0. Every model trace (single builds
from two initial states, all two-build sequences per converter) is replayed with the real
`ucg build` in a scratch directory and the directory listing and bytes are compared after
every step. Expected bytes come from the real `convert` expression evaluated in-process.
"""
import itertools
import os
import shutil
import tempfile

from vf import core

LEVEL = "model_checking"

SENTINEL = b"SENTINEL-ARTIFACT\n"
EXT = {"json": "json", "yaml": "yaml", "yamlmulti": "yaml", "toml": "toml", "env": "env", "flags": "txt", "exec": "sh", "xml": "xml"}

# per converter: convertible values (A, B, ...) and unconvertible ones
PRE = "constraint cc = in 1..3;\n"
GOOD = {
    "json": ['{a = 1}', '[1, "s"]', '"str"', '1', '{a = {b = [1, 2]}, c = NULL}', '{s = "é\\n"}'],
    "yaml": ['{a = 1}', '[1, "s"]', '"str"', '{a = {b = [1, 2]}, c = NULL}'],
    "yamlmulti": ['[{a = 1}, {b = 2}]', '{a = 1}', '["x", "y"]'],
    "toml": ['{a = 1}', '{t = {b = "s"}, l = [1, 2]}'],
    "env": ['{A = "x"}', '{A = "x y", B = 1}'],
    "flags": ['{a = 1}', '{name = "v", l = [1, 2]}'],
    "exec": ['{command = "echo", args = ["a"]}', '{command = "ls", env = {A = "b"}}'],
    "xml": ['{root = {name = "r"}}', '{root = {name = "r", children = ["t"]}}'],
}
BAD = {
    "json": ['{a = 0.0 / 0.0}', 'cc', '{a = cc}'],
    "yaml": ['cc', '[cc]'],
    "yamlmulti": ['[cc]'],
    "toml": ['{a = NULL}', '[1, 2]', '1', '{a = cc}', '{l = [1, {b = 1}]}'],
    "env": ['1', '[1]'],
    "flags": ['1', '"s"', '[1]'],
    "exec": ['1', '{command = 1}', '{args = ["a"]}', '{command = "x", args = "notalist"}'],
    "xml": ['1', '{}', '{root = 1}', '{root = {name = "x", text = "t"}}', '{root = "text"}'],
}


# values whose fault a converter meets only after it has produced part of its text: the last item / field / document /
# node is the unconvertible one (added after a sixth-round seeded change: an artifact opened before the conversion ended)
LATE = {
    "json": ['{a = "x", b = [1, 2], z = cc}', '[1, "s", cc]'],
    "yaml": ['{a = "x", b = [1, 2], z = cc}', '[1, "s", cc]'],
    "yamlmulti": ['[{a = 1}, {b = 2}, cc]', '[{a = 1}, {b = cc}]'],
    "toml": ['{a = "x", t = {b = 1}, z = NULL}', '{a = "x", l = [1, 2], z = cc}'],
    "env": [],
    "flags": [],
    "exec": ['{command = "echo", env = {A = "b"}, args = ["one", 2]}', '{command = "echo", env = {A = "b", N = 3}, args = ["one"]}',
             '{command = "echo", args = ["one", {f = 1}, [1]]}'],
    "xml": ['{root = {name = "r", attrs = {k = "v"}, children = [{name = "a"}, "t", 1]}}', '{root = {name = "r", children = [{name = "a", children = [{name = "b"}, {}]}]}}',
            '{root = {name = "r", children = [{name = "a", attrs = {k = 1}}]}}'],
}
for _f, _vs in LATE.items():
    BAD[_f] = BAD[_f] + _vs


def source(fmt, exprs):
    """file with one `out` per expression"""
    lines = [PRE]
    for i, e in enumerate(exprs):
        lines.append("let v%d = %s;\nout %s v%d;\n" % (i, e, fmt, i))
    if not exprs:
        lines.append("let v = 1;\n")
    return "".join(lines)


def expected_bytes(srv, fmt, expr):
    """-> bytes or None (not convertible) using the real `convert` expression"""
    rs = srv.req({"op": "eval", "src": PRE + "let v = %s;\nlet s = convert %s v;" % (expr, fmt)})
    if "ok" in rs:
        d = dict((k, v) for k, v in rs["ok"]["t"])
        s = d.get("s")
        if isinstance(s, str):
            return s.encode("utf-8")
        return None
    return None


def listing(d):
    out = {}
    for root, _, names in os.walk(d):
        for n in sorted(names):
            if n.endswith(".ucg") or n == ".ucg":
                continue
            p = os.path.join(root, n)
            with open(p, "rb") as f:
                out[os.path.relpath(p, d)] = f.read()
    return out


def model_step(state, fmt, exprs, exp, name=None):
    """-> (set of acceptable (exit, state)) ; exp: list of expected bytes per expr (None = unconvertible)"""
    name = name or ("probe." + EXT[fmt])
    if len(exprs) == 0:
        return [(0, dict(state))]
    if len(exprs) == 1:
        if exp[0] is None:
            return [(1, dict(state))]
        s = dict(state)
        s[name] = exp[0]
        return [(0, s)]
    # two outs: an error; the first artifact may or may not have been written
    acc = [(1, dict(state))]
    if exp[0] is not None:
        s = dict(state)
        s[name] = exp[0]
        acc.append((1, s))
    return acc


def work(chunk):
    """chunk: list of traces; a trace = (fmt, initial ('empty'|'sentinel'), [exprs per build])"""
    srv = core.worker_server()
    hist = {}
    viol = []
    transitions = 0
    states = set()
    for item in chunk:
        fmt, initial, builds = item[0], item[1], item[2]
        stem = (item[3] if len(item) > 3 else None) or "probe"
        invocation = item[4] if len(item) > 4 else "plain"
        d = tempfile.mkdtemp(prefix="ucgverif-c14-")
        try:
            name = stem + "." + EXT[fmt]
            state = {}
            if initial == "sentinel":
                with open(os.path.join(d, name), "wb") as f:
                    f.write(SENTINEL)
                state[name] = SENTINEL
            bad = None
            for step, exprs in enumerate(builds):
                with open(os.path.join(d, stem + ".ucg"), "w") as f:
                    f.write(source(fmt, exprs))
                exp = [expected_bytes(srv, fmt, e) for e in exprs]
                acceptable = model_step(state, fmt, exprs, exp, name)
                # the same file named in different ways on the command line
                os.makedirs(os.path.join(d, "sub"), exist_ok=True)
                arg, cwd = {"plain": (stem + ".ucg", d), "dot-slash": ("./" + stem + ".ucg", d), "through-subdir": ("sub/../" + stem + ".ucg", d),
                            "from-subdir": ("../" + stem + ".ucg", os.path.join(d, "sub")), "absolute": (os.path.join(d, stem + ".ucg"), "/"),
                            "double-slash": (".//" + stem + ".ucg", d)}[invocation]
                rc, out, err = core.run_ucg(["build", arg], cwd=cwd)
                after = listing(d)
                transitions += 1
                states.add(core.json.dumps(sorted((k, core.hashlib.sha1(v).hexdigest()[:8]) for k, v in after.items())))
                ok = any(rc == a_rc and after == a_state for a_rc, a_state in acceptable)
                if not ok:
                    kind = "convertible" if (exprs and exp[0] is not None) else ("unconvertible" if exprs else "no-out")
                    a_rc, a_state = acceptable[0]
                    if rc != a_rc:
                        what = "exit-%s-expected-%s" % (rc, a_rc)
                    elif set(after) != set(a_state):
                        extra = sorted(set(after) - set(a_state))
                        missing = sorted(set(a_state) - set(after))
                        what = "listing:" + ("+" + ",".join(x.replace(stem, "STEM") for x in extra) if extra else "") + ("-" + ",".join(x.replace(stem, "STEM") for x in missing) if missing else "")
                    else:
                        n = [k for k in after if after[k] != a_state[k]][0]
                        what = "bytes:%s" % ("empty-or-truncated" if len(after[n]) < len(a_state[n]) else "differ-from-convert")
                        if a_state[n] == SENTINEL:
                            what = "bytes:earlier-artifact-destroyed"
                    bad = ("%s:%s:%dout:%s:%s%s" % (fmt, kind, len(exprs), "after-" + ("good-artifact" if state else "nothing"), what,
                                                   "" if invocation == "plain" else ":invoked-" + invocation),
                           {"fmt": fmt, "initial": initial, "builds": builds, "step": step, "stem": stem, "invocation": invocation},
                           {"rc": rc, "expected_rc": a_rc, "after": {k: v.decode("utf-8", "replace")[:200] for k, v in after.items()},
                            "expected": {k: v.decode("utf-8", "replace")[:200] for k, v in a_state.items()}, "stderr": err.decode("utf-8", "replace")[-300:]})
                    break
                # follow the implementation's (acceptable) state
                state = after
            k = "%s:%d-build%s:%s" % (fmt, len(builds), "" if len(builds) > 1 else ("-" + initial), "agrees" if bad is None else "VIOLATION")
            hist[k] = hist.get(k, 0) + 1
            if bad:
                viol.append(bad)
        finally:
            shutil.rmtree(d, ignore_errors=True)
    return {"evals": len(chunk), "hist": hist, "viol": viol, "transitions": transitions, "state_keys": list(states)}


STEMS = ["my.conf", "a b", "dash-name_1", "UPPER", "x.ucg.bak"]


def work_two_inputs(chunk):
    """`ucg build first.ucg second.ucg`: each file gets its artifact or not as if built alone, and the run fails if either does"""
    srv = core.worker_server()
    hist = {}
    viol = []
    for fmt, e1, e2 in chunk:
        d = tempfile.mkdtemp(prefix="ucgverif-c14-")
        try:
            exp = {}
            for stem, e in (("first", e1), ("second", e2)):
                with open(os.path.join(d, stem + ".ucg"), "w") as f:
                    f.write(source(fmt, [e]))
                b = expected_bytes(srv, fmt, e)
                if b is not None:
                    exp[stem + "." + EXT[fmt]] = b
            want_rc = 0 if len(exp) == 2 else 1
            rc, out, err = core.run_ucg(["build", "first.ucg", "second.ucg"], cwd=d)
            after = listing(d)
            bad = None
            if rc != want_rc:
                bad = "exit-%s-expected-%s" % (rc, want_rc)
            elif after != exp:
                bad = "artifacts-differ"
            k = "%s:two-inputs:%s" % (fmt, "agrees" if bad is None else "VIOLATION")
            hist[k] = hist.get(k, 0) + 1
            if bad:
                kinds = "+".join("convertible" if (s + "." + EXT[fmt]) in exp else "unconvertible" for s in ("first", "second"))
                viol.append(("%s:two-inputs:%s:%s" % (fmt, kinds, bad), {"fmt": fmt, "two_inputs": [e1, e2]},
                             {"rc": rc, "after": sorted(after), "expected": sorted(exp), "stderr": err.decode("utf-8", "replace")[-300:]}))
        finally:
            shutil.rmtree(d, ignore_errors=True)
    return {"evals": len(chunk), "hist": hist, "viol": viol, "transitions": len(chunk), "state_keys": []}


def traces(thorough):
    # the artifact is named like the source file with the format's extension, whatever the stem looks like
    for fmt in EXT:
        for stem in STEMS:
            yield (fmt, "empty", [[GOOD[fmt][0]]], stem)
            yield (fmt, "sentinel", [[BAD[fmt][0]]], stem)
    # the way the file is named on the command line must not matter (0, 1 and 2 outs, convertible or not)
    for fmt in EXT:
        A, B, U = GOOD[fmt][0], GOOD[fmt][1], BAD[fmt][0]
        for inv in ("dot-slash", "through-subdir", "from-subdir", "absolute", "double-slash"):
            for exprs in ([], [A], [U], [A, B], [A, A], [U, A]):
                for initial in ("empty", "sentinel"):
                    yield (fmt, initial, [exprs], None, inv)
            yield (fmt, "empty", [[A], [B]], None, inv)
    for fmt in EXT:
        vals = GOOD[fmt] + BAD[fmt]
        for initial in ("empty", "sentinel"):
            yield (fmt, initial, [[]])
            for v in vals:
                yield (fmt, initial, [[v]])
            for a, b in itertools.product(vals if thorough else vals[:4] + BAD[fmt][:2], repeat=2):
                yield (fmt, initial, [[a, b]])
        # every sequence of two builds over {A, B, U}
        A, B, U = GOOD[fmt][0], GOOD[fmt][1], BAD[fmt][0]
        for x, y in itertools.product([A, B, U], repeat=2):
            yield (fmt, "empty", [[x], [y]])
        if thorough:
            for x, y, z in itertools.product([A, B, U] + BAD[fmt][1:2], repeat=3):
                yield (fmt, "empty", [[x], [y], [z]])


def run(ctx):
    thorough = ctx.tier == "thorough"
    trs = list(traces(thorough))
    ctx.bounds = {"converters": len(EXT), "values_per_converter": {f: len(GOOD[f]) + len(BAD[f]) for f in EXT}, "sequence_length": 3 if thorough else 2}
    ctx.rule = ("per converter (8): 0, 1 and 2 out statements x a pool of convertible and unconvertible values x initial directory state "
                "{empty, earlier artifact present}; every sequence of two (thorough three) builds over {convertible A, convertible B, "
                "unconvertible U} in one directory; 0 / 1 / 2 out statements once more with the file named on the command line in five other ways "
                "(./x, sub/../x, ../x from a sub-directory, absolute from /, .//x). Each trace is replayed with `ucg build` and the listing + bytes compared with the model "
                "after every build; expected bytes are what `convert <fmt> v` evaluates to.")
    viol = []
    states = set()
    transitions = 0
    for part in core.pmap(work, trs, chunk=8):
        ctx.count(part["evals"], part["evals"])
        for k, v in part["hist"].items():
            ctx.outcome(k, v)
        viol.extend(part["viol"])
        transitions += part["transitions"]
        states.update(part["state_keys"])
    two = [(fmt, a, b) for fmt in EXT for a, b in itertools.product([GOOD[fmt][0], BAD[fmt][0]], repeat=2)]
    for part in core.pmap(work_two_inputs, two, chunk=4):
        ctx.count(part["evals"], part["evals"])
        for k, v in part["hist"].items():
            ctx.outcome(k, v)
        transitions += part["transitions"]
        for sig, trace, det in part["viol"]:
            ctx.violation(sig, "%s in %s" % (sig, core.json.dumps(trace)[:200]), {"kind": "two-inputs", "trace": trace, "detail": det})
    ctx.sample({"fmt": "toml", "initial": "sentinel", "builds": [["{a = NULL}"]], "model": "exit 1, probe.toml keeps its earlier bytes"})
    ctx.sample({"fmt": "json", "initial": "empty", "builds": [["{a = 1}"], ["cc"]], "model": "exit 0 then exit 1; probe.json = convert json {a = 1}"})
    ctx.coverage_extra.update({"states": max(1, len(states)), "transitions": max(1, transitions), "traces_validated_against_impl": len(trs)})
    seen = {}
    for sig, trace, det in sorted(viol, key=lambda v: len(str(v[1]))):
        if sig in seen:
            ctx.violations[sig]["count"] += 1
            continue
        seen[sig] = 1
        ctx.violation(sig, "%s in %s" % (sig, core.json.dumps(trace)[:200]), {"kind": "trace", "trace": trace, "detail": det})


def replay(case):
    tr = case["trace"]
    if case.get("kind") == "two-inputs":
        core._WORKER_SERVER = None
        part = work_two_inputs([(tr["fmt"], tr["two_inputs"][0], tr["two_inputs"][1])])
        core.worker_server().close()
        core._WORKER_SERVER = None
        return not part["viol"], {"violations": part["viol"]}
    core._WORKER_SERVER = None
    part = work([(tr["fmt"], tr["initial"], tr["builds"], tr.get("stem", "probe"), tr.get("invocation", "plain"))])
    core.worker_server().close()
    core._WORKER_SERVER = None
    return not part["viol"], {"violations": part["viol"]}
