"""C04 — no input makes the compiler crash or hang.

E1 in watched worker processes: every input of the bounded spaces below is pushed through every
stage (tokenize, parse, AstPrinter, Checker, translate+run, every converter on a successful
result) by the `pipeline` op of ucgmc, each stage under its own catch_unwind; the Python side
attributes aborts (stack overflow, OOM under RLIMIT_AS) and watchdog expiries to the input in
flight. Oracle: every stage ends in a value or a non-empty diagnostic.
"""
import glob
import hashlib
import itertools
import os
import re

from vf import core, reflex
from checks import c11

LEVEL = "exploration"
WATCHDOG = 20.0

VOCAB = c11.VOCAB
I64MAX = "9223372036854775807"
I64MIN = "(0 - 9223372036854775807 - 1)"


# ---------------------------------------------------------------------------------------------
# generators: each yields (class, source)

def gen_nesting(maxdepth):
    def nest(open_, close, core_, d):
        return open_ * d + core_ + close * d
    forms = {
        "paren": lambda d: "let x = " + "(" * d + "1" + ")" * d + ";",
        "list": lambda d: "let x = " + "[" * d + "1" + "]" * d + ";",
        "tuple": lambda d: "let x = " + "{a = " * d + "1" + "}" * d + ";",
        "not": lambda d: "let x = " + "not " * d + "true;",
        "func": lambda d: "let x = " + "func(a) => " * d + "1;",
        "call": lambda d: "let f = func(a) => a; let x = " + "f(" * d + "1" + ")" * d + ";",
        "select": lambda d: "let x = " + "select (\"a\", 0) => {a = " * d + "1" + "}" * d + ";",
        "format": lambda d: "let x = " + "\"@\" % (" * d + "1" + ")" * d + ";",
        "copy": lambda d: "let t = {a = 1}; let x = " + "t{b = " * d + "1" + "}" * d + ";",
        "binary-right": lambda d: "let x = " + "1 + (" * d + "1" + ")" * d + ";",
        "binary-chain": lambda d: "let x = 1" + " + 1" * d + ";",
        "dot-chain": lambda d: "let t = " + "{a = " * d + "1" + "}" * d + "; let x = t" + ".a" * d + ";",
        "module": lambda d: "let x = " + "module{} => { let y = " * d + "1" + ";}" * d + ";",
        "map": lambda d: "let f = func(a) => a; let x = " + "map(f, " * d + "[1]" + ")" * d + ";",
        "grouped-range": lambda d: "let x = " + "(" * d + "0:2" + ")" * d + ";",
        "cast": lambda d: "let x = " + "int(" * d + "1" + ")" * d + ";",
    }
    for name in forms:
        yield name, [forms[name](d) for d in range(1, maxdepth + 1)]


def gen_tokens(maxlen, vocab):
    for ln in range(1, maxlen + 1):
        for tup in itertools.product(vocab, repeat=ln):
            body = " ".join(tup)
            yield "tokens%d" % ln, body
            yield "tokens%d-let" % ln, "let x = " + body + ";"


BIGF = "1" + "0" * 308 + ".0"
ARITH_VALS = ["0", "1", "(0 - 1)", I64MAX, I64MIN, "0.0", "(0.0 - 0.0)", "1.5", BIGF, '""', "[]", "NULL", "true", '"a"', "{}"]
BINOPS = ["+", "-", "*", "/", "%%", "==", "!=", ">", "<", ">=", "<=", "~", "!~", "in", "is", "&&", "||", "."]


def gen_arith():
    for op in BINOPS:
        for a in ARITH_VALS:
            for b in ARITH_VALS:
                yield "arith", "let x = %s %s %s;" % (a, op, b)
    casts = ['""', '"1"', '"-1"', '"+1"', '" 1"', '"1 "', '"1.5"', '"1e5"', '"1e400"', '"NaN"', '"inf"', '"-inf"', '"infinity"',
             '"9223372036854775807"', '"9223372036854775808"', '"-9223372036854775809"', '"0x10"', '"true"', '"false"', '"True"', '"NULL"',
             '"1_000"', '"١"', '"1.0.0"', '"."', '"-"', '"e"', '"1e"', '"00"', '"-0"', "NULL", "true", "1", "1.5", I64MAX, I64MIN,
             "[1]", "{a = 1}", "func() => 1", "module{} => {}", "179769313486231570000000000000000000000000.0", "(0.0 / 0.0)", "(1.0 / 0.0)"]
    for c in ("int", "float", "str", "bool"):
        for v in casts:
            yield "cast", "let x = %s(%s);" % (c, v)
    bounds = [I64MIN, "(0 - 1)", "0", "1", "2", "1000000", I64MAX, "9223372036854775806"]
    steps = [None, I64MIN, "(0 - 1)", "0", "1", "2", "1000000", I64MAX]

    def val(s):
        if s == I64MIN:
            return -2 ** 63
        if s == "(0 - 1)":
            return -1
        return int(s)
    for a in bounds:
        for b in bounds:
            for st in steps:
                va, vb = val(a), val(b)
                vs = 1 if st is None else val(st)
                if vs > 0 and vb >= va and (vb - va) // vs > 10 ** 6:
                    continue        # excluded by the property: ranges longer than 10^6
                pa = a if not a.startswith("(") else a
                yield "range", "let x = %s:%s%s;" % (pa, (st + ":") if st is not None else "", b)
    # the same through let-bound names (the checker sees symbols)
    for op in ("/", "%%", "+", "-", "*"):
        for a in ("0", I64MAX, I64MIN):
            for b in ("0", "(0 - 1)", I64MAX):
                yield "arith-let", "let a = %s; let b = %s; let f = func(p, q) => p %s q; let x = f(a, b);" % (a, b, op)


def gen_format():
    alpha = ["@", "\\\\", "{", "}", "a", " "]
    args = ["()", "(1)", "(1, 2)", "(1, 2, 3)"]
    for ln in range(0, 5):
        for t in itertools.product(alpha, repeat=ln):
            tpl = "".join(t)
            for a in args:
                yield "format", 'let x = "%s" %% %s;' % (tpl, a)
            yield "format-single", 'let x = "%s" %% 1;' % tpl
            yield "format-single", 'let x = "%s" %% {a = 1};' % tpl
    for tpl in ["@{item}", "@{item.a}", "@{item.b}", "@{1 + }", "@{", "@{}", "@{item", "@{item}}", "@{{}}", "@{\\\"}\\\"}", "@{item.a}@{item.a}", "\\\\@{item}"]:
        for a in ("1", "{a = 1}", "[1]", "NULL", "item"):
            yield "format-expr", 'let x = "%s" %% %s;' % (tpl, a)


def gen_raw():
    alpha = ['"', "\\", "/", "\n", "\r", " ", "é", "😀", " ", "1", "a", ".", "-", "@"]
    for ln in range(0, 4):
        for t in itertools.product(alpha, repeat=ln):
            s = "".join(t)
            yield "raw-bare", s
            yield "raw-in-string", 'let x = "' + s + '";'
            yield "raw-in-comment", "let x = 1; //" + s
            yield "raw-after-let", "let x = " + s


def gen_long_flat():
    """Flat (not nested) constructs grown to the 4 KiB the property names: long operator chains, lists,
    tuples, argument lists, selector chains, strings, comments, templates, many statements."""
    def upto(prefix, unit, suffix, limit=4096):
        n = max(1, (limit - len(prefix) - len(suffix)) // len(unit))
        return prefix + unit * n + suffix
    yield "long-add-chain", upto("let x = 1", " + 1", ";")
    yield "long-mixed-chain", upto("let x = 1", " + 2 * 3 - 4", ";")
    yield "long-bool-chain", upto("let x = true", " && true || false", ";")
    yield "long-compare-chain", upto("let x = 1", " == 1", ";")
    yield "long-string-concat", upto('let x = "a"', ' + "b"', ";")
    yield "long-list-concat", upto("let x = [1]", " + [2]", ";")
    yield "long-list", upto("let x = [", "1, ", "];")
    yield "long-tuple", "let x = {" + "".join("f%d = %d, " % (i, i) for i in range(400)) + "};"
    yield "long-tuple-dup-fields", upto("let x = {", "a = 1, ", "};")
    yield "long-arglist", "let f = func (" + ", ".join("a%d" % i for i in range(300)) + ") => a0;\nlet x = f(" + ", ".join("1" for _ in range(300)) + ");"
    yield "long-selector-chain", "let t = {a = 1};\n" + upto("let x = t", ".a", ";")
    yield "long-copy-chain", "let t = {a = 1};\n" + "".join("let t%d = t{b%d = %d};\n" % (i, i, i) for i in range(150))
    yield "long-statements", "".join("let v%d = %d;\n" % (i, i) for i in range(330))
    yield "long-dependent-statements", "let v0 = 0;\n" + "".join("let v%d = v%d + 1;\n" % (i + 1, i) for i in range(250))
    yield "long-string", 'let x = "' + "a" * 4000 + '";'
    yield "long-string-escapes", upto('let x = "', "\\\\\\n", '";')
    yield "long-string-non-ascii", 'let x = "' + "é😀" * 600 + '";'
    yield "long-comment", "// " + "c" * 4000 + "\nlet x = 1;"
    yield "long-many-comments", upto("", "// c\n", "let x = 1;")
    yield "long-template", upto('let x = "', "@ ", '" % (' + ", ".join("1" for _ in range(50)) + ");")
    yield "long-template-matching", 'let x = "' + "@" * 500 + '" % (' + ", ".join("1" for _ in range(500)) + ");"
    yield "long-template-expr", upto('let x = "', "@{item} ", '" % 1;')
    yield "long-select", "let x = select (\"f399\", 0) => {" + "".join("f%d = %d, " % (i, i) for i in range(400)) + "};"
    yield "long-range", "let x = 0:4000;"
    yield "long-map-reduce", "let x = reduce(func (acc, i) => acc + i, 0, map(func (i) => i * 2, 0:3000));"
    yield "long-whitespace", "let x =" + " " * 4000 + "1;"
    yield "long-newlines", "let x =" + "\n" * 4000 + "1;"
    yield "long-ident", "let " + "a" * 4000 + " = 1;"
    yield "long-number", "let x = " + "9" * 4000 + ";"
    yield "long-float", "let x = 1." + "0" * 4000 + ";"
    yield "long-operators-garbage", upto("", "+ - * / ", "")
    yield "long-braces-unbalanced", upto("let x = ", "} ", ";")
    yield "long-semicolons", ";" * 4000
    yield "long-assert", "".join("assert {ok = true, desc = \"d%d\"};\n" % i for i in range(100))
    yield "long-constraint-alternation", "let x :: " + " | ".join(str(i) for i in range(600)) + " = 5;"
    # many function values and one comparison that has to look at them (each function carries the scope before it)
    for n in (8, 16, 24, 32, 64, 128):
        defs = "".join("let f%d = func (x) => x + %d;\n" % (i, i) for i in range(n))
        yield "many-functions-compared-%d" % n, defs + "let r = f%d == f%d;\nlet s = f%d == f0;\n" % (n - 1, n - 1, n - 1)
        yield "many-functions-in-list-%d" % n, defs + "let r = f%d in [f0, f%d];\n" % (n - 1, n - 1)
        yield "many-functions-in-tuple-compared-%d" % n, defs + "let r = {f = f%d} == {f = f%d};\n" % (n - 1, n - 1)
        yield "many-modules-compared-%d" % n, "".join("let m%d = module {a = %d} => { let b = mod.a; };\n" % (i, i) for i in range(n)) + "let r = m%d == m%d;\n" % (n - 1, n - 1)
    # a constraint that mentions itself outside any list or tuple (nothing gets smaller on the way round)
    for decl in ("constraint a = a | 1;", "constraint a = 1 | a;", "constraint a = a | a;", "constraint a = a;", "constraint a = a | [a];",
                 "constraint a = \"x\" | a | in 1..5;", "constraint b = 1 | 2;\nconstraint a = b | a;"):
        for val in ("1", "\"s\"", "[1]", "{k = 1}", "NULL"):
            yield "constraint-mentions-itself-unguarded", decl + "\nlet x :: a = " + val + ";"


def cli_long_flat(cases):
    """The in-process harness runs on a 256 MiB stack; the real binary does not. Every long flat input is
    also given to `ucg build` and `ucg fmt` (default stack): exit status must be 0 or 1."""
    import shutil
    import tempfile
    viol = []
    hist = {}
    d = tempfile.mkdtemp(prefix="ucgverif-c04-")
    try:
        for cls, src in cases:
            p = os.path.join(d, "long.ucg")
            with open(p, "w") as f:
                f.write(src)
            for cmd in (["build", "long.ucg"], ["fmt", "long.ucg"]):
                rc, out, err = core.run_ucg(cmd, cwd=d, timeout=60)
                k = "cli-%s:%s" % (cmd[0], "exit-%s" % rc if rc in (0, 1) else "CRASH")
                hist[k] = hist.get(k, 0) + 1
                if rc not in (0, 1):
                    viol.append((cls, src, "cli-" + cmd[0], "hang" if rc is None else "abort", {"abort": rc, "stderr": err.decode("utf-8", "replace")[-300:]}))
    finally:
        shutil.rmtree(d, ignore_errors=True)
    return hist, viol


def gen_layouts():
    """C05's layout family as crash inputs: every canonical statement form with each separator
    (blank, tab, LF, CRLF, indentation, four comment placements) at every gap between tokens. The
    formatter's comment handling is only reached by texts that have comments inside expressions."""
    from checks import c05          # (c05 imports this module: resolved at call time)
    for canon in c05.CANON:
        tokens = canon.split(" ")
        n = len(tokens)
        for g in range(n + 1):
            for sep in c05.GAP_SEPS:
                if sep == " ":
                    continue
                parts = []
                for k in range(n + 1):
                    parts.append(sep if k == g else ("" if k in (0, n) else " "))
                    if k < n:
                        parts.append(tokens[k])
                yield "layout", "".join(parts)


def repo_sources(max_bytes):
    seen = set()
    out = []
    pats = ["**/*.ucg"]
    for p in pats:
        for f in sorted(glob.glob(os.path.join(core.REPO, p), recursive=True)):
            if "/target/" in f or "/fuzz/" in f:
                continue
            try:
                data = open(f, "rb").read()
            except OSError:
                continue
            h = hashlib.sha1(data).hexdigest()
            if h in seen or len(data) > max_bytes:
                continue
            seen.add(h)
            try:
                out.append((os.path.relpath(f, core.REPO), data.decode("utf-8")))
            except UnicodeDecodeError:
                pass
    return out


def corpus_sources():
    out = []
    seen = set()
    for d in ("compile", "parse", "tokenize"):
        for f in sorted(glob.glob(os.path.join(core.REPO, "fuzz", "corpus", d, "*"))):
            data = open(f, "rb").read()
            h = hashlib.sha1(data).hexdigest()
            if h in seen:
                continue
            seen.add(h)
            try:
                out.append(("fuzz/corpus/%s/%s" % (d, os.path.basename(f)[:10]), data.decode("utf-8")))
            except UnicodeDecodeError:
                pass      # the property speaks of UTF-8 text
    return out


REPLACEMENTS = [";", "(", ")", "{", "}", "=", "let", "1", '"s"', ".", "=>", "NULL"]


def segments(src):
    """Split source text at token starts (reference lexer offsets; the text of a segment includes
    the trailing white space/comments). None if the reference lexer rejects the text."""
    try:
        toks = reflex.lex(src)
    except reflex.LexError:
        return None
    b = src.encode("utf-8")
    offs = [t[2] for t in toks]
    segs = [b[:offs[0]]] if offs and offs[0] > 0 else []
    for i in range(len(offs) - 1):
        segs.append(b[offs[i]:offs[i + 1]])
    return [s.decode("utf-8") for s in segs]


def self_recursive_statements(segs):
    """Indices of the segments that belong to a statement defining a module that instantiates
    itself through `mod.this`, or to a statement that mentions such a module by name. The property
    excludes module self-recursion without a base case, and a mutation inside one of these
    statements (start=1 -> start=11, a renamed field) is how the base case gets lost; the module
    then recurses until memory runs out. Mutations elsewhere in the file are kept."""
    stmt = []
    depth = 0
    k = 0
    for sg in segs:
        stmt.append(k)
        t = sg.strip().split()[0] if sg.strip() else ""
        if t in ("(", "{", "["):
            depth += 1
        elif t in (")", "}", "]"):
            depth = max(0, depth - 1)
        elif t == ";" and depth == 0:
            k += 1
    texts = {}
    for sg, j in zip(segs, stmt):
        texts[j] = texts.get(j, "") + sg
    names = set()
    hot = set()
    for j, t in texts.items():
        if "mod.this" in t.replace(" ", ""):
            hot.add(j)
            m = re.match(r"\s*let\s+([A-Za-z_][A-Za-z0-9_]*)", t)
            if m:
                names.add(m.group(1))
    for j, t in texts.items():
        if any(re.search(r"\b%s\b" % re.escape(nm), t) for nm in names):
            hot.add(j)
    return {i for i, j in enumerate(stmt) if j in hot}


EXCLUDED_MUTATIONS = [0]


def mutations(src):
    segs = segments(src)
    if not segs:
        return
    n = len(segs)
    skip = self_recursive_statements(segs) if "this" in src else set()
    for i in range(n):
        if i in skip or (i + 1 in skip):
            EXCLUDED_MUTATIONS[0] += 1
            continue
        yield "del", "".join(segs[:i] + segs[i + 1:])
        yield "dup", "".join(segs[:i + 1] + segs[i:])
        if i + 1 < n:
            yield "swap", "".join(segs[:i] + [segs[i + 1], segs[i]] + segs[i + 2:])
        for r in REPLACEMENTS:
            yield "repl", "".join(segs[:i] + [r + " "] + segs[i + 1:])


# ---------------------------------------------------------------------------------------------
# worker

def classify(stages):
    """-> list of (stage, failure) for stages that neither succeeded nor gave a diagnostic."""
    bad = []
    for st, v in stages.items():
        if isinstance(v, dict) and "panic" in v:
            bad.append((st, "panic", v))
        elif v == "err-empty":
            bad.append((st, "empty-diagnostic", v))
    return bad


def work(chunk):
    """chunk: list of (class, src, cwd)"""
    srv = core.worker_server(timeout=WATCHDOG)
    # the converters are exercised on every successful result except the long ranges (a 10^6
    # element list through 8 converters costs seconds and adds nothing: C03/C08/C12 own them)
    resps = srv.req_many([{"op": "pipeline", "src": s, "convert": c != "range"} for (c, s, _) in chunk])
    hist = {}
    viol = []
    for (cls, src, _), rs in zip(chunk, resps):
        if "stages" in rs:
            bad = classify(rs["stages"])
            last = "eval" if "eval" in rs["stages"] else ("parse" if "parse" in rs["stages"] else "tokenize")
            res = rs["stages"].get(last)
            oc = "%s:%s" % (last, res if isinstance(res, str) else "PANIC")
            if bad:
                for st, kind, v in bad:
                    viol.append((cls, src, st, kind, v))
        elif "hang" in rs:
            oc = "HANG"
            viol.append((cls, src, "?", "hang", rs))
        elif "abort" in rs:
            oc = "ABORT"
            viol.append((cls, src, "?", "abort", rs))
        else:
            oc = "machinery:%s" % list(rs.keys())
            viol.append((cls, src, "?", "machinery", rs))
        k = "%s:%s" % (cls.split("-")[0].rstrip("0123456789"), oc)
        hist[k] = hist.get(k, 0) + 1
    return {"evals": len(chunk), "hist": hist, "viol": viol[:200], "sample": chunk[len(chunk) // 2][1][:200] if chunk else None}


def work_nesting(chunk):
    """chunk: [(name, [src by depth])]; stop a construct at its first failing depth."""
    srv = core.worker_server(timeout=WATCHDOG)
    out = {"evals": 0, "hist": {}, "viol": [], "sample": None, "maxdepth": {}}
    for name, srcs in chunk:
        ok_depth = 0
        for d, src in enumerate(srcs, 1):
            rs = srv.req({"op": "pipeline", "src": src})
            out["evals"] += 1
            if "stages" in rs:
                bad = classify(rs["stages"])
                if bad:
                    for st, kind, v in bad:
                        out["viol"].append(("nesting-" + name, src, st, kind, dict(v, depth=d)))
                    out["hist"]["nesting:PANIC"] = out["hist"].get("nesting:PANIC", 0) + 1
                    break
                ok_depth = d
                out["hist"]["nesting:ok"] = out["hist"].get("nesting:ok", 0) + 1
            else:
                kind = "hang" if "hang" in rs else "abort"
                out["viol"].append(("nesting-" + name, src, "?", kind, dict(rs, depth=d)))
                out["hist"]["nesting:" + kind.upper()] = out["hist"].get("nesting:" + kind.upper(), 0) + 1
                break
        out["maxdepth"][name] = ok_depth
        out["sample"] = srcs[min(3, len(srcs) - 1)]
    return out


def norm_msg(m):
    m = re.sub(r"\d+", "N", m or "")
    return m[:80]


def make_sig(cls, src, stage, kind, detail):
    gen = cls.split("-")[0].rstrip("0123456789")
    if kind == "panic":
        loc = (detail.get("loc") or "").split("/")[-1].split(":")[0]
        return "panic:%s:%s:%s" % (stage, loc, norm_msg(detail.get("panic")))
    if kind in ("hang", "abort"):
        if cls.startswith("nesting-"):
            return "%s:%s" % (kind, cls)
        return "%s:%s:%s" % (kind, gen, src if len(src) <= 60 else hashlib.sha1(src.encode()).hexdigest()[:10])
    return "%s:%s:%s" % (kind, stage, gen)


def run(ctx):
    thorough = ctx.tier == "thorough"
    maxdepth = 64
    tok_len = 3
    ctx.bounds = {"token_tuple_len": tok_len, "vocabulary": len(VOCAB), "nesting_depth": maxdepth, "watchdog_s": WATCHDOG,
                  "mutated_file_max_bytes": 6000 if thorough else 1300}
    ctx.rule = ("every token tuple of length <= %d over the %d-token vocabulary (bare and as `let x = ...;`), every arithmetic/comparison operator "
                "x ordered pairs of 15 edge operands, casts of 43 edge operands, ranges over 8 bounds x 8 steps (length <= 10^6), every format "
                "template of length <= 4 over 6 characters x 0..3 arguments and the expression form, every raw text of length <= 3 over 14 "
                "characters in 4 contexts, every canonical statement form of C05 with each of its separators (incl. four comment placements) at every "
                "gap between tokens, 16 nesting constructs at depth 1..%d, 35 flat constructs grown to 4 KiB, 8..128 function / module values compared with each other, 7 constraints that mention themselves unguarded x 5 values (also through the real `ucg build` "
                "and `ucg fmt` with their default stack), every repository .ucg file and UTF-8 fuzz-corpus entry "
                "unmutated, and delete/duplicate/swap/replace-by-12-tokens at every token position of the files under the size bound. "
                "Every input is a distinct text; non-trivial = reached the parser with a lexically valid text." % (tok_len, len(VOCAB), maxdepth))
    viols = []

    def absorb(part):
        nt = sum(v for k, v in part["hist"].items() if ":tokenize:" not in k)
        ctx.count(part["evals"], nt)
        for k, v in part["hist"].items():
            ctx.outcome(k, v)
        if part.get("sample"):
            ctx.sample(part["sample"])
        viols.extend(part["viol"])

    # (f) nesting first: it decides how deep the other generators may go
    maxd = {}
    for part in core.pmap(work_nesting, list(gen_nesting(maxdepth)), chunk=1):
        absorb(part)
        maxd.update(part["maxdepth"])
    ctx.coverage_extra["nesting_max_depth_ok"] = maxd

    import time
    stage_s = {}
    ctx.coverage_extra["stage_seconds"] = stage_s
    stage_s["nesting"] = round(time.time() - ctx.t0, 1)

    def stream(gen, chunk=400, name=None):
        t0 = time.time()
        items = ((c, s, None) for c, s in gen)
        for part in core.pmap_gen(work, items, chunk=chunk):
            absorb(part)
        if name:
            stage_s[name] = round(time.time() - t0, 1)

    long_cases = list(gen_long_flat())
    stream(iter(long_cases), 4, 'long-flat')
    h, v = cli_long_flat(long_cases)
    for k, n in h.items():
        ctx.outcome(k, n)
    ctx.count(sum(h.values()), sum(h.values()))
    viols.extend(v)
    stream(gen_layouts(), 400, 'layouts')
    stream(gen_arith(), 100, 'arith')
    stream(gen_format(), 300, 'format')
    stream(gen_raw(), 400, 'raw')
    stream(gen_tokens(tok_len, VOCAB), 1500, 'tokens')
    if thorough:
        core30 = ["let", "func", "select", "module", "import", "not", "fail", "in", "is", "map", "x", "1", '"s"', "NULL", "true",
                  ".", ",", "{", "}", "(", ")", "[", "]", "+", "%", "==", "=>", "=", ";", ":"]
        stream(((c, s) for c, s in gen_tokens(4, core30) if c.startswith("tokens4")), 1500, 'tokens4')

    # (b) corpus + mutations
    files = repo_sources(250000)
    corp = corpus_sources()
    stream(((("file", s)) for _, s in files + corp), 20, 'files')
    bound = ctx.bounds["mutated_file_max_bytes"]
    small = [(n, s) for n, s in files if len(s) <= bound]
    small_corp = [(n, s) for n, s in corp if len(s) <= min(bound, 400)]
    ctx.coverage_extra["files_replayed"] = len(files) + len(corp)
    ctx.coverage_extra["files_mutated"] = len(small) + len(small_corp)

    def gen_mut():
        for n, s in small + small_corp:
            for kind, m in mutations(s):
                yield "mut-" + kind, m
    stream(gen_mut(), 300, 'mutations')
    if EXCLUDED_MUTATIONS[0]:
        ctx.coverage_extra["token_positions_not_mutated_inside_self_recursive_module_statements"] = EXCLUDED_MUTATIONS[0]

    # re-run hangs alone (an overloaded batch is only a suspect)
    confirmed = []
    suspects = [v for v in viols if v[3] == "hang" and not v[0].startswith("nesting-")]
    if suspects:
        srv = core.Server(timeout=WATCHDOG)
        for v in suspects[:40]:
            rs = srv.req({"op": "pipeline", "src": v[1]})
            if "hang" in rs:
                confirmed.append(v)
        srv.close()
    viols = [v for v in viols if v[3] != "hang" or v[0].startswith("nesting-")] + confirmed

    viols.sort(key=lambda v: (len(v[1]), v[1]))
    for cls, src, stage, kind, detail in viols:
        sig = make_sig(cls, src, stage, kind, detail)
        what = "%s in stage %s on %r" % (kind, stage, src if len(src) < 200 else src[:200] + "...")
        if kind == "panic":
            what += " — %s at %s" % (detail.get("panic"), detail.get("loc"))
        if cls.startswith("nesting-"):
            what += " (first failing depth %s)" % detail.get("depth")
        ctx.violation(sig, what, {"kind": "pipeline", "class": cls, "src": src, "stage": stage, "failure": kind, "detail": detail})


def replay(case):
    srv = core.Server(timeout=WATCHDOG)
    try:
        rs = srv.req({"op": "pipeline", "src": case["src"]})
    finally:
        srv.close()
    ok = "stages" in rs and not classify(rs["stages"])
    return ok, {"observed": rs}
