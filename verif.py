#!/usr/bin/env python3
"""Single entry point of the ucg verification machinery.

    ./verif.py setup                       build harness + CLI from /repo, self-test tools
    ./verif.py check C02 [--tier quick]    run one property check (exit 0 / 1 / 2)
    ./verif.py replay <replay.json>        re-execute one recorded violation without the explorer
    ./verif.py all [--tier quick]          run every registered check in turn (summary table)
"""
import argparse
import importlib
import json
import os
import sys
import time
import traceback

HERE = os.path.dirname(os.path.abspath(__file__))
sys.path.insert(0, os.path.join(HERE, "py"))

from vf import core  # noqa: E402

LEVELS = {
    "C13": "model_checking", "C14": "model_checking", "C16": "model_checking", "C20": "model_checking",
}


def load_check(prop):
    return importlib.import_module("checks.%s" % prop.lower())


def cmd_setup(args):
    try:
        dt = core.build(quiet=False)
    except core.MachineryError as e:
        print("MACHINERY: %s" % e)
        return core.EXIT_MACHINERY
    s = core.Server()
    r = s.req({"op": "ping"})
    s.close()
    if r.get("ok") != "pong":
        print("MACHINERY: ucgmc self-test failed: %r" % r)
        return core.EXIT_MACHINERY
    rc, out, err = core.run_ucg(["converters"], cwd=core.scratch_home())
    if rc != 0:
        print("MACHINERY: ucg self-test failed rc=%r" % rc)
        return core.EXIT_MACHINERY
    # tools the checks rely on
    import shutil
    missing = [t for t in ("sh", "bash") if shutil.which(t) is None]
    try:
        import yaml  # noqa: F401
        import tomllib  # noqa: F401
        import xml.parsers.expat  # noqa: F401
    except ImportError as e:
        missing.append(str(e))
    if missing:
        print("MACHINERY: missing tools: %s" % missing)
        return core.EXIT_MACHINERY
    print("setup ok (build %.1fs)" % dt)
    return 0


def cmd_check(args):
    prop = args.prop.upper()
    tier = args.tier or os.environ.get("VERIF_TIER") or "quick"
    if tier not in ("quick", "thorough"):
        tier = "quick"
    seed = int(os.environ.get("VERIF_SEED", "0") or 0)
    try:
        core.build()
    except core.MachineryError as e:
        print("MACHINERY: %s" % e)
        return core.EXIT_MACHINERY
    mod = load_check(prop)
    ctx = core.Ctx(prop, tier, getattr(mod, "LEVEL", LEVELS.get(prop, "exploration")), seed)
    try:
        mod.run(ctx)
    except core.MachineryError as e:
        ctx.machinery_errors.append(str(e))
    except Exception:
        ctx.machinery_errors.append("exception in check: " + traceback.format_exc()[-1500:])
    return ctx.finish()


def cmd_replay(args):
    with open(args.path) as f:
        data = json.load(f)
    prop = data["property"]
    try:
        core.build()
    except core.MachineryError as e:
        print("MACHINERY: %s" % e)
        return core.EXIT_MACHINERY
    mod = load_check(prop)
    ok, detail = mod.replay(data["case"])
    print(json.dumps({"property": prop, "sig": data.get("sig"), "still_violates": not ok, "detail": detail}, indent=1, ensure_ascii=False, default=str))
    return 0 if ok else 1


def cmd_all(args):
    with open(os.path.join(HERE, "MANIFEST.json")) as f:
        man = json.load(f)
    rows = []
    for c in man["checks"]:
        prop = c["property_id"]
        t0 = time.time()
        a = argparse.Namespace(prop=prop, tier=args.tier)
        rc = cmd_check(a)
        rows.append((prop, rc, time.time() - t0))
    print("\n== summary ==")
    for prop, rc, dt in rows:
        print("%s rc=%d %.1fs" % (prop, rc, dt))
    return max(r[1] for r in rows) if rows else 0


def main():
    ap = argparse.ArgumentParser()
    sub = ap.add_subparsers(dest="cmd", required=True)
    sub.add_parser("setup")
    c = sub.add_parser("check")
    c.add_argument("prop")
    c.add_argument("--tier", default=None)
    r = sub.add_parser("replay")
    r.add_argument("path")
    sub.add_parser("manifest")
    a = sub.add_parser("all")
    a.add_argument("--tier", default=None)
    args = ap.parse_args()
    os.chdir(HERE)
    if args.cmd == "manifest":
        from vf import manifest
        m = manifest.generate()
        print("MANIFEST.json: %d checks, %d not_applicable" % (len(m["checks"]), len(m["not_applicable"])))
        sys.exit(0)
    # Every scratch directory of this run (worker scratch, per-process HOMEs, projects) is made below one directory
    # of the run's own, which is removed when the run ends: pool workers are terminated without their atexit handlers,
    # so directories made directly under /tmp would stay behind.
    import shutil
    import tempfile
    run_root = tempfile.mkdtemp(prefix="ucgverif-run-")
    tempfile.tempdir = run_root
    os.environ["TMPDIR"] = run_root
    try:
        rc = {"setup": cmd_setup, "check": cmd_check, "replay": cmd_replay, "all": cmd_all}[args.cmd](args)
        sys.stdout.flush()
    finally:
        tempfile.tempdir = None
        shutil.rmtree(run_root, ignore_errors=True)
    sys.exit(rc)


if __name__ == "__main__":
    main()
