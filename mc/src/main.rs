//! ucgmc — JSON-lines batch server exposing the real entry points of ucglib.
//!
//! One request per input line, one response per output line. All enumeration,
//! reference models and oracles live in /verif/py; this binary only executes the
//! real code (built from /repo's working tree) and reports what it did, so that
//! millions of bounded-exhaustive cases can be pushed through the library without
//! paying process start-up or `Environment::new` for each.
//!
//! Every request runs under `catch_unwind`; a panic is reported as
//! `{"panic": "<message>"}`. Aborts (stack overflow, OOM) kill the process; the
//! Python side attributes them to the request in flight.

use std::cell::RefCell;
use std::collections::BTreeMap;
use std::io::{BufRead, Write};
use std::panic::{catch_unwind, AssertUnwindSafe};
use std::path::PathBuf;
use std::rc::Rc;

use serde_json::{json, Value as J};

use ucglib::ast::printer::AstPrinter;
use ucglib::ast::walk::Walker;
use ucglib::ast::*;
use ucglib::build::ir::Val;
use ucglib::build::opcode::Environment;
use ucglib::build::FileBuilder;
use ucglib::convert::{ConverterRegistry, ImporterRegistry};
use ucglib::iter::OffsetStrIter;
use ucglib::parse::parse;
use ucglib::tokenizer::{tokenize, CommentMap};

mod astjson;

#[derive(Clone)]
struct SharedBuf(Rc<RefCell<Vec<u8>>>);

impl SharedBuf {
    fn new() -> Self {
        SharedBuf(Rc::new(RefCell::new(Vec::new())))
    }
    fn take(&self) -> Vec<u8> {
        std::mem::take(&mut *self.0.borrow_mut())
    }
}

impl Write for SharedBuf {
    fn write(&mut self, buf: &[u8]) -> std::io::Result<usize> {
        self.0.borrow_mut().extend_from_slice(buf);
        Ok(buf.len())
    }
    fn flush(&mut self) -> std::io::Result<()> {
        Ok(())
    }
}

type Env = Environment<SharedBuf, SharedBuf>;

struct EnvBox {
    env: RefCell<Env>,
    out: SharedBuf,
    err: SharedBuf,
}

impl EnvBox {
    fn new(vars: BTreeMap<Rc<str>, Rc<str>>) -> Self {
        let out = SharedBuf::new();
        let err = SharedBuf::new();
        EnvBox {
            env: RefCell::new(Environment::new_with_vars(out.clone(), err.clone(), vars)),
            out,
            err,
        }
    }
}

fn val_to_json(v: &Val) -> J {
    match v {
        Val::Empty => J::Null,
        Val::Boolean(b) => J::Bool(*b),
        Val::Int(i) => json!({"i": i.to_string()}),
        Val::Float(f) => json!({"f": format!("{:?}", f)}),
        Val::Str(s) => J::String(s.to_string()),
        Val::List(els) => json!({"l": els.iter().map(|e| val_to_json(e)).collect::<Vec<_>>()}),
        Val::Tuple(flds) => json!({"t": flds.iter().map(|(k, v)| json!([k.to_string(), val_to_json(v)])).collect::<Vec<_>>()}),
        Val::Env(flds) => json!({"e": flds.iter().map(|(k, v)| json!([k.to_string(), v.to_string()])).collect::<Vec<_>>()}),
        Val::Constraint(_) => json!({"k": format!("{}", v)}),
    }
}

fn json_to_val(j: &J) -> Result<Val, String> {
    Ok(match j {
        J::Null => Val::Empty,
        J::Bool(b) => Val::Boolean(*b),
        J::String(s) => Val::Str(s.as_str().into()),
        J::Object(m) => {
            if let Some(i) = m.get("i") {
                Val::Int(i.as_str().ok_or("i")?.parse::<i64>().map_err(|e| e.to_string())?)
            } else if let Some(f) = m.get("f") {
                let s = f.as_str().ok_or("f")?;
                Val::Float(match s {
                    "NaN" | "nan" => f64::NAN,
                    "inf" => f64::INFINITY,
                    "-inf" => f64::NEG_INFINITY,
                    _ => s.parse::<f64>().map_err(|e| e.to_string())?,
                })
            } else if let Some(l) = m.get("l") {
                let mut out = Vec::new();
                for e in l.as_array().ok_or("l")? {
                    out.push(Rc::new(json_to_val(e)?));
                }
                Val::List(out)
            } else if let Some(t) = m.get("t") {
                let mut out = Vec::new();
                for e in t.as_array().ok_or("t")? {
                    let pair = e.as_array().ok_or("pair")?;
                    let k: Rc<str> = pair[0].as_str().ok_or("key")?.into();
                    out.push((k, Rc::new(json_to_val(&pair[1])?)));
                }
                Val::Tuple(out)
            } else if m.contains_key("k") {
                // a constraint value: `in 1..3`
                use ucglib::build::ir::{ConstraintBound, ConstraintVal, ConstraintValArm};
                Val::Constraint(ConstraintVal {
                    arms: vec![ConstraintValArm::Range(ConstraintBound::Int(Some(1), Some(3)))],
                })
            } else {
                return Err("unknown object".into());
            }
        }
        _ => return Err("unsupported json".into()),
    })
}

fn b64(bytes: &[u8]) -> String {
    const T: &[u8; 64] = b"ABCDEFGHIJKLMNOPQRSTUVWXYZabcdefghijklmnopqrstuvwxyz0123456789+/";
    let mut s = String::with_capacity((bytes.len() + 2) / 3 * 4);
    for chunk in bytes.chunks(3) {
        let b = [chunk[0], *chunk.get(1).unwrap_or(&0), *chunk.get(2).unwrap_or(&0)];
        let n = ((b[0] as u32) << 16) | ((b[1] as u32) << 8) | (b[2] as u32);
        s.push(T[((n >> 18) & 63) as usize] as char);
        s.push(T[((n >> 12) & 63) as usize] as char);
        s.push(if chunk.len() > 1 { T[((n >> 6) & 63) as usize] as char } else { '=' });
        s.push(if chunk.len() > 2 { T[(n & 63) as usize] as char } else { '=' });
    }
    s
}

fn bytes_json(bytes: &[u8]) -> J {
    match std::str::from_utf8(bytes) {
        Ok(s) => json!({"utf8": s}),
        Err(_) => json!({"b64": b64(bytes)}),
    }
}

fn pos_json(p: &Position) -> J {
    json!([p.line, p.column, p.offset])
}

struct Server {
    shared: Option<EnvBox>,
    named: BTreeMap<String, EnvBox>,
    import_paths: Vec<PathBuf>,
    converters: ConverterRegistry,
    importers: ImporterRegistry,
}

fn env_vars(req: &J) -> BTreeMap<Rc<str>, Rc<str>> {
    let mut vars = BTreeMap::new();
    if let Some(m) = req.get("vars").and_then(|v| v.as_object()) {
        for (k, v) in m {
            vars.insert(k.as_str().into(), v.as_str().unwrap_or("").into());
        }
    }
    vars
}

impl Server {
    fn new() -> Self {
        Server {
            shared: None,
            named: BTreeMap::new(),
            import_paths: Vec::new(),
            converters: ConverterRegistry::make_registry(),
            importers: ImporterRegistry::make_registry(),
        }
    }

    fn handle(&mut self, req: &J) -> J {
        let op = req.get("op").and_then(|o| o.as_str()).unwrap_or("");
        match op {
            "ping" => json!({"ok": "pong"}),
            "tokenize" => self.op_tokenize(req),
            "parse" => self.op_parse(req),
            "fmt" => self.op_fmt(req),
            "check" => self.op_check(req),
            "eval" => self.op_eval(req),
            "pipeline" => self.op_pipeline(req),
            "build" => self.op_build(req),
            "convert" => self.op_convert(req),
            "import" => self.op_import(req),
            "env_new" => {
                let id = req["id"].as_str().unwrap_or("").to_string();
                self.named.insert(id, EnvBox::new(env_vars(req)));
                json!({"ok": true})
            }
            "env_drop" => {
                let id = req["id"].as_str().unwrap_or("");
                self.named.remove(id);
                json!({"ok": true})
            }
            "env_state" => self.op_env_state(req),
            "converters" => {
                let mut l: Vec<(String, String)> = self
                    .converters
                    .get_converter_list()
                    .iter()
                    .map(|(k, c)| (k.to_string(), c.file_ext()))
                    .collect();
                l.sort();
                json!({"ok": l})
            }
            _ => json!({"bad_request": op}),
        }
    }

    fn op_tokenize(&mut self, req: &J) -> J {
        let src = req["src"].as_str().unwrap_or("");
        let want_comments = req.get("comments").and_then(|b| b.as_bool()).unwrap_or(false);
        let mut cm = CommentMap::new();
        let r = if want_comments {
            tokenize(OffsetStrIter::new(src), Some(&mut cm))
        } else {
            tokenize(OffsetStrIter::new(src), None)
        };
        match r {
            Ok(toks) => {
                let l: Vec<J> = toks
                    .iter()
                    .map(|t| json!([format!("{:?}", t.typ), t.fragment.to_string(), t.pos.line, t.pos.column, t.pos.offset]))
                    .collect();
                if want_comments {
                    let c: Vec<J> = cm
                        .iter()
                        .map(|(k, g)| json!([k, g.iter().map(|t| json!([t.fragment.to_string(), t.pos.line, t.pos.column, t.pos.offset])).collect::<Vec<_>>()]))
                        .collect();
                    json!({"ok": l, "comments": c})
                } else {
                    json!({"ok": l})
                }
            }
            Err(e) => json!({"err": format!("{}", e), "pos": e.pos.as_ref().map(pos_json)}),
        }
    }

    fn op_parse(&mut self, req: &J) -> J {
        let src = req["src"].as_str().unwrap_or("");
        let with_pos = req.get("pos").and_then(|b| b.as_bool()).unwrap_or(false);
        match parse(OffsetStrIter::new(src), None) {
            Ok(stmts) => json!({"ok": astjson::stmts_json(&stmts, with_pos)}),
            Err(e) => json!({"err": format!("{}", e), "pos": e.pos.as_ref().map(pos_json)}),
        }
    }

    fn op_fmt(&mut self, req: &J) -> J {
        let src = req["src"].as_str().unwrap_or("");
        let indent = req.get("indent").and_then(|b| b.as_u64()).unwrap_or(4) as usize;
        let mut cm = CommentMap::new();
        match parse(OffsetStrIter::new(src), Some(&mut cm)) {
            Ok(stmts) => {
                let mut buf: Vec<u8> = Vec::new();
                let r = {
                    let mut printer = AstPrinter::new(indent, &mut buf).with_comment_map(&cm);
                    printer.render(&stmts)
                };
                match r {
                    Ok(_) => {
                        let mut resp = json!({"ok": bytes_json(&buf)});
                        if req.get("ast").and_then(|b| b.as_bool()).unwrap_or(false) {
                            resp["ast"] = astjson::stmts_json(&stmts, false);
                        }
                        resp
                    }
                    Err(e) => json!({"err": format!("render: {}", e)}),
                }
            }
            Err(e) => json!({"err": format!("{}", e), "pos": e.pos.as_ref().map(pos_json)}),
        }
    }

    fn op_check(&mut self, req: &J) -> J {
        let src = req["src"].as_str().unwrap_or("");
        match parse(OffsetStrIter::new(src), None) {
            Ok(mut stmts) => {
                let mut checker = ucglib::ast::typecheck::Checker::new();
                checker.walk_statement_list(stmts.iter_mut().collect());
                match checker.result() {
                    Ok(_) => json!({"ok": true}),
                    Err(e) => json!({"err": format!("Type error: {}", e.msg), "pos": e.pos.as_ref().map(pos_json)}),
                }
            }
            Err(e) => json!({"err": format!("{}", e), "pos": e.pos.as_ref().map(pos_json), "parse": true}),
        }
    }

    fn with_env<F: FnOnce(&EnvBox, &Vec<PathBuf>) -> J>(&mut self, req: &J, f: F) -> J {
        // env: "shared" (default) | "fresh" | "<named id>"
        let which = req.get("env").and_then(|e| e.as_str()).unwrap_or("shared");
        match which {
            "fresh" => {
                let eb = EnvBox::new(env_vars(req));
                f(&eb, &self.import_paths)
            }
            "shared" => {
                if self.shared.is_none() {
                    self.shared = Some(EnvBox::new(BTreeMap::new()));
                }
                // Take the env out while in use so that a panic (poisoned RefCell)
                // cannot leak into the next request.
                let eb = self.shared.take().unwrap();
                let r = f(&eb, &self.import_paths);
                // eval_string has no path: `out` locks "/dev/stdout" in the env. Programs are
                // independent here, so undo exactly that (C16 studies sharing separately).
                eb.env.borrow_mut().out_lock.clear();
                eb.env.borrow_mut().assert_results = ucglib::build::AssertCollector::new();
                self.shared = Some(eb);
                r
            }
            id => {
                let eb = match self.named.remove(id) {
                    Some(eb) => eb,
                    None => return json!({"bad_request": format!("no env {}", id)}),
                };
                let r = f(&eb, &self.import_paths);
                self.named.insert(id.to_string(), eb);
                r
            }
        }
    }

    fn op_eval(&mut self, req: &J) -> J {
        let src = req["src"].as_str().unwrap_or("").to_string();
        let strict = req.get("strict").and_then(|b| b.as_bool()).unwrap_or(true);
        let validate = req.get("validate").and_then(|b| b.as_bool()).unwrap_or(false);
        let cwd = req.get("cwd").and_then(|b| b.as_str()).map(PathBuf::from).unwrap_or_else(|| std::env::current_dir().unwrap());
        self.with_env(req, |eb, import_paths| {
            let mut b = FileBuilder::new(cwd, import_paths, &eb.env);
            b.set_strict(strict);
            if validate {
                b.enable_validate_mode();
            }
            let r = b.eval_string(&src);
            let mut resp = match r {
                Ok(v) => json!({"ok": val_to_json(&v)}),
                Err(e) => json!({"err": format!("{}", e)}),
            };
            let out = eb.out.take();
            let err = eb.err.take();
            if !out.is_empty() {
                resp["stdout"] = bytes_json(&out);
            }
            if !err.is_empty() {
                resp["stderr"] = bytes_json(&err);
            }
            if validate {
                resp["assert_ok"] = J::Bool(b.assert_results());
                resp["assert_summary"] = J::String(b.assert_summary());
            }
            resp
        })
    }

    /// C04: run one text through every stage, each under its own catch_unwind, and report the
    /// outcome class per stage (ok / err / panic).
    fn op_pipeline(&mut self, req: &J) -> J {
        let src = req["src"].as_str().unwrap_or("").to_string();
        let mut stages = serde_json::Map::new();
        fn guard<F: FnOnce() -> J>(f: F) -> J {
            match catch_unwind(AssertUnwindSafe(f)) {
                Ok(j) => j,
                Err(p) => {
                    let msg = if let Some(s) = p.downcast_ref::<&str>() {
                        s.to_string()
                    } else if let Some(s) = p.downcast_ref::<String>() {
                        s.clone()
                    } else {
                        "panic".to_string()
                    };
                    let loc = LAST_PANIC_LOC.with(|c| c.borrow().clone());
                    json!({"panic": msg, "loc": loc})
                }
            }
        }
        fn brief(j: &J) -> J {
            if j.get("panic").is_some() {
                j.clone()
            } else if let Some(e) = j.get("err") {
                let s = e.as_str().unwrap_or("");
                if s.trim().is_empty() { json!("err-empty") } else { json!("err") }
            } else {
                json!("ok")
            }
        }
        let r = guard(|| self.op_tokenize(&json!({"src": src})));
        stages.insert("tokenize".into(), brief(&r));
        let r = guard(|| self.op_parse(&json!({"src": src})));
        let parsed = r.get("ok").is_some();
        stages.insert("parse".into(), brief(&r));
        if parsed {
            let r = guard(|| self.op_fmt(&json!({"src": src})));
            stages.insert("fmt".into(), brief(&r));
            let r = guard(|| self.op_check(&json!({"src": src})));
            stages.insert("check".into(), brief(&r));
            let r = guard(|| self.op_eval(&json!({"src": src, "strict": req.get("strict").and_then(|b| b.as_bool()).unwrap_or(true)})));
            stages.insert("eval".into(), brief(&r));
            if let Some(v) = r.get("ok") {
                if req.get("convert").and_then(|b| b.as_bool()).unwrap_or(true) {
                    for fmt in ["json", "yaml", "toml", "env", "flags", "exec", "xml", "yamlmulti"] {
                        let rr = guard(|| self.op_convert(&json!({"fmt": fmt, "val": v})));
                        let b = brief(&rr);
                        if b != json!("ok") && b != json!("err") {
                            stages.insert(format!("convert-{}", fmt), b);
                        }
                    }
                    stages.insert("convert".into(), json!("done"));
                }
            }
        }
        json!({"stages": J::Object(stages)})
    }

    fn op_build(&mut self, req: &J) -> J {
        let path = PathBuf::from(req["path"].as_str().unwrap_or(""));
        let strict = req.get("strict").and_then(|b| b.as_bool()).unwrap_or(true);
        let validate = req.get("validate").and_then(|b| b.as_bool()).unwrap_or(false);
        let cwd = req.get("cwd").and_then(|b| b.as_str()).map(PathBuf::from).unwrap_or_else(|| std::env::current_dir().unwrap());
        self.with_env(req, |eb, import_paths| {
            let mut b = FileBuilder::new(cwd, import_paths, &eb.env);
            b.set_strict(strict);
            if validate {
                b.enable_validate_mode();
            }
            let r = b.build(path);
            let mut resp = match r {
                Ok(_) => match &b.out {
                    Some(v) => json!({"ok": val_to_json(v)}),
                    None => json!({"ok": J::Null, "no_out": true}),
                },
                Err(e) => json!({"err": format!("{}", e)}),
            };
            let out = eb.out.take();
            let err = eb.err.take();
            if !out.is_empty() {
                resp["stdout"] = bytes_json(&out);
            }
            if !err.is_empty() {
                resp["stderr"] = bytes_json(&err);
            }
            if validate {
                resp["assert_ok"] = J::Bool(b.assert_results());
                resp["assert_summary"] = J::String(b.assert_summary());
            }
            resp
        })
    }

    fn op_env_state(&mut self, req: &J) -> J {
        let id = req["id"].as_str().unwrap_or("");
        match self.named.get(id) {
            Some(eb) => {
                let env = eb.env.borrow();
                let vals: Vec<String> = env.val_cache.keys().map(|k| k.to_string()).collect();
                let shapes: Vec<String> = env.shape_cache.borrow().keys().map(|k| k.to_string_lossy().to_string()).collect();
                let locks: Vec<String> = env.out_lock.iter().map(|k| k.to_string_lossy().to_string()).collect();
                json!({"ok": {
                    "val_cache": vals,
                    "shape_cache": shapes,
                    "out_lock": locks,
                    "assert": [env.assert_results.counter, env.assert_results.success, env.assert_results.summary.lines().count(), env.assert_results.failures.lines().count()],
                }})
            }
            None => json!({"bad_request": format!("no env {}", id)}),
        }
    }

    fn op_convert(&mut self, req: &J) -> J {
        let fmt = req["fmt"].as_str().unwrap_or("");
        let val = match json_to_val(&req["val"]) {
            Ok(v) => v,
            Err(e) => return json!({"bad_request": e}),
        };
        match self.converters.get_converter(fmt) {
            Some(c) => {
                let mut buf: Vec<u8> = Vec::new();
                match c.convert(Rc::new(val), &mut buf) {
                    Ok(_) => json!({"ok": bytes_json(&buf), "ext": c.file_ext()}),
                    Err(e) => json!({"err": format!("{}", e), "partial": bytes_json(&buf)}),
                }
            }
            None => json!({"err": "no such converter", "unknown": true}),
        }
    }

    fn op_import(&mut self, req: &J) -> J {
        let fmt = req["fmt"].as_str().unwrap_or("");
        let text = req["text"].as_str().unwrap_or("");
        match self.importers.get_importer(fmt) {
            Some(c) => match c.import(text.as_bytes()) {
                Ok(v) => json!({"ok": val_to_json(&v)}),
                Err(e) => json!({"err": format!("{}", e)}),
            },
            None => json!({"err": "no such importer", "unknown": true}),
        }
    }
}

thread_local! {
    static LAST_PANIC_LOC: RefCell<String> = RefCell::new(String::new());
}

fn serve() {
    std::panic::set_hook(Box::new(|info| {
        let loc = info.location().map(|l| format!("{}:{}", l.file(), l.line())).unwrap_or_default();
        LAST_PANIC_LOC.with(|c| *c.borrow_mut() = loc);
    }));
    let stdin = std::io::stdin();
    let stdout = std::io::stdout();
    let mut server = Server::new();
    let mut line = String::new();
    let mut inp = stdin.lock();
    loop {
        line.clear();
        match inp.read_line(&mut line) {
            Ok(0) | Err(_) => break,
            Ok(_) => {}
        }
        let trimmed = line.trim_end_matches('\n');
        if trimmed.is_empty() {
            continue;
        }
        let resp = match serde_json::from_str::<J>(trimmed) {
            Ok(req) => {
                let r = catch_unwind(AssertUnwindSafe(|| server.handle(&req)));
                match r {
                    Ok(j) => j,
                    Err(p) => {
                        let msg = if let Some(s) = p.downcast_ref::<&str>() {
                            s.to_string()
                        } else if let Some(s) = p.downcast_ref::<String>() {
                            s.clone()
                        } else {
                            "panic".to_string()
                        };
                        let loc = LAST_PANIC_LOC.with(|c| c.borrow().clone());
                        json!({"panic": msg, "loc": loc})
                    }
                }
            }
            Err(e) => json!({"bad_request": format!("{}", e)}),
        };
        let mut out = stdout.lock();
        let _ = serde_json::to_writer(&mut out, &resp);
        let _ = out.write_all(b"\n");
        let _ = out.flush();
    }
}

fn main() {
    let args: Vec<String> = std::env::args().collect();
    let stack_mb: usize = std::env::var("UCGMC_STACK_MB").ok().and_then(|s| s.parse().ok()).unwrap_or(256);
    if args.len() > 1 && args[1] == "serve" {
        let h = std::thread::Builder::new()
            .stack_size(stack_mb * 1024 * 1024)
            .spawn(serve)
            .unwrap();
        let _ = h.join();
    } else {
        eprintln!("usage: ucgmc serve   (JSON lines on stdin/stdout)");
        std::process::exit(2);
    }
}
