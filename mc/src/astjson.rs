//! Position-free JSON rendering of the ucg AST (the "normaliser" of DESIGN §C05/C11):
//! erases `Position`s and the QUOTED/BAREWORD distinction of field names, keeps
//! everything else, including `Grouped` nodes.

use serde_json::{json, Value as J};
use ucglib::ast::*;

fn opt(e: &Option<Expression>) -> J {
    match e {
        Some(e) => expr_json(e),
        None => J::Null,
    }
}

fn optb(e: &Option<Box<Expression>>) -> J {
    match e {
        Some(e) => expr_json(e),
        None => J::Null,
    }
}

fn fields_json(fl: &FieldList) -> J {
    J::Array(
        fl.iter()
            .map(|(t, c, e)| json!([t.fragment.to_string(), opt(c), expr_json(e)]))
            .collect(),
    )
}

pub fn value_json(v: &Value) -> J {
    match v {
        Value::Empty(_) => json!(["null"]),
        Value::Boolean(b) => json!(["bool", b.val]),
        Value::Int(i) => json!(["int", i.val.to_string()]),
        Value::Float(f) => json!(["float", format!("{:?}", f.val)]),
        Value::Str(s) => json!(["str", s.val.to_string()]),
        Value::Symbol(s) => json!(["sym", s.val.to_string()]),
        Value::Tuple(t) => json!(["tuple", fields_json(&t.val)]),
        Value::List(l) => json!(["list", l.elems.iter().map(expr_json).collect::<Vec<_>>()]),
    }
}

pub fn expr_json(e: &Expression) -> J {
    match e {
        Expression::Simple(v) => value_json(v),
        Expression::Not(d) => json!(["not", expr_json(&d.expr)]),
        Expression::Binary(d) => json!(["bin", format!("{:?}", d.kind), expr_json(&d.left), expr_json(&d.right)]),
        Expression::Copy(d) => json!(["copy", value_json(&d.selector), fields_json(&d.fields)]),
        Expression::Range(d) => json!(["range", expr_json(&d.start), optb(&d.step), expr_json(&d.end)]),
        Expression::Grouped(e, _) => json!(["group", expr_json(e)]),
        Expression::Format(d) => match &d.args {
            FormatArgs::List(l) => json!(["format", d.template, "list", l.iter().map(expr_json).collect::<Vec<_>>()]),
            FormatArgs::Single(e) => json!(["format", d.template, "single", expr_json(e)]),
        },
        Expression::Include(d) => json!(["include", d.typ.fragment.to_string(), d.path.fragment.to_string()]),
        Expression::Import(d) => json!(["import", d.path.fragment.to_string()]),
        Expression::Call(d) => json!(["call", value_json(&d.funcref), d.arglist.iter().map(expr_json).collect::<Vec<_>>()]),
        Expression::Cast(d) => json!(["cast", format!("{:?}", d.cast_type), expr_json(&d.target)]),
        Expression::Func(d) => json!([
            "func",
            d.argdefs.iter().map(|(n, c)| json!([n.val.to_string(), opt(c)])).collect::<Vec<_>>(),
            expr_json(&d.fields)
        ]),
        Expression::Select(d) => json!(["select", expr_json(&d.val), optb(&d.default), fields_json(&d.tuple)]),
        Expression::FuncOp(FuncOpDef::Map(d)) => json!(["map", expr_json(&d.func), expr_json(&d.target)]),
        Expression::FuncOp(FuncOpDef::Filter(d)) => json!(["filter", expr_json(&d.func), expr_json(&d.target)]),
        Expression::FuncOp(FuncOpDef::Reduce(d)) => {
            json!(["reduce", expr_json(&d.func), expr_json(&d.acc), expr_json(&d.target)])
        }
        Expression::Module(d) => json!([
            "module",
            fields_json(&d.arg_set),
            optb(&d.out_expr),
            optb(&d.out_constraint),
            stmts_json(&d.statements, false)
        ]),
        Expression::Fail(d) => json!(["fail", expr_json(&d.message)]),
        Expression::Debug(d) => json!(["trace", expr_json(&d.expr)]),
        Expression::Convert(d) => json!(["convert", d.converter.fragment.to_string(), expr_json(&d.target)]),
        Expression::Constraint(d) => json!([
            "constraint",
            d.arms
                .iter()
                .map(|a| match a {
                    ConstraintArm::Range(r) => json!(["range", optb(&r.start), optb(&r.end)]),
                    ConstraintArm::Shape(e) => json!(["shape", expr_json(e)]),
                })
                .collect::<Vec<_>>()
        ]),
    }
}

pub fn stmt_json(s: &Statement, with_pos: bool) -> J {
    let mut j = match s {
        Statement::Expression(e) => json!(["expr", expr_json(e)]),
        Statement::Let(d) => json!(["let", d.name.fragment.to_string(), opt(&d.constraint), expr_json(&d.value)]),
        Statement::Constraint(d) => json!(["constraintdef", d.name.fragment.to_string(), expr_json(&d.value)]),
        Statement::Assert(_, e) => json!(["assert", expr_json(e)]),
        Statement::Output(_, t, e) => json!(["out", t.fragment.to_string(), expr_json(e)]),
    };
    if with_pos {
        let p = match s {
            Statement::Expression(e) => e.pos().clone(),
            Statement::Let(d) => d.pos.clone(),
            Statement::Constraint(d) => d.pos.clone(),
            Statement::Assert(p, _) => p.clone(),
            Statement::Output(p, _, _) => p.clone(),
        };
        j.as_array_mut().unwrap().push(json!({"p": [p.line, p.column, p.offset]}));
    }
    j
}

pub fn stmts_json(s: &Vec<Statement>, with_pos: bool) -> J {
    J::Array(s.iter().map(|s| stmt_json(s, with_pos)).collect())
}
